"""C++ laboratory: compile what the builder returned, unmodified, against the instrumented mock
Dezyne runtime, run it under a script and hand back the event log."""
from __future__ import annotations

import json
import os
import re
import shutil
import subprocess
from typing import Any, Dict, List, Optional, Tuple

from . import cfggen
from . import common
from . import cxxgen
from . import model as M
from . import refcfg
from . import shellbuild

MOCK = os.path.join(os.path.dirname(os.path.abspath(__file__)), 'cxx', 'mockdzn')

FLAVORS = {
    'plain': ['g++', '-std=c++17', '-O0', '-pthread', '-w'],
    'clang': ['clang++-14', '-std=c++17', '-O0', '-pthread', '-w'],
    'asan': ['clang++-14', '-std=c++17', '-O1', '-g', '-fsanitize=address,undefined',
             '-fno-sanitize-recover=all', '-fno-omit-frame-pointer', '-pthread', '-w'],
    'tsan': ['clang++-14', '-std=c++17', '-O1', '-g', '-fsanitize=thread', '-pthread', '-w'],
}
RUN_ENV = {
    'asan': {'ASAN_OPTIONS': 'detect_stack_use_after_return=1:halt_on_error=1:abort_on_error=0:'
                             'detect_leaks=0',
             'UBSAN_OPTIONS': 'halt_on_error=1:print_stacktrace=1'},
    'tsan': {'TSAN_OPTIONS': 'halt_on_error=0:report_signal_unsafe=0:history_size=4'},
}


# flags added to every compiler invocation of the current work item (language level ...)
EXTRA_FLAGS: List[str] = []


def tools_available() -> bool:
    return bool(shutil.which('g++')) and bool(shutil.which('clang++-14'))


def _b(text):
    """Paths and arguments as UTF-8 bytes: file names the library hands back may hold characters
    the interpreter's file system encoding cannot express (an ASCII locale, see
    vlib.surroundings), and that is the harness's problem, not the library's."""
    return text.encode('utf-8') if isinstance(text, str) else text


def write_files(directory: str, files: Dict[str, str]):
    os.makedirs(directory, exist_ok=True)
    for name, text in files.items():
        with open(_b(os.path.join(directory, name)), 'w', encoding='utf-8', newline='') as fh:
            fh.write(text)


def compile_link(directory: str, sources: List[str], exe: str, flavor: str = 'plain',
                 extra: Optional[List[str]] = None, timeout: int = 900) -> Tuple[int, str]:
    cmd = FLAVORS[flavor] + EXTRA_FLAGS + (extra or []) + ['-I', directory, '-I', MOCK] + sources + \
        ['-o', exe]
    try:
        proc = subprocess.run([_b(c) for c in cmd], cwd=directory, capture_output=True,
                              timeout=timeout)
    except subprocess.TimeoutExpired:
        return -9, 'compiler watchdog'
    return proc.returncode, proc.stderr.decode('utf-8', 'replace')


def syntax_only(directory: str, source: str, flavor: str = 'plain',
                extra: Optional[List[str]] = None, timeout: int = 900) -> Tuple[int, str]:
    cmd = FLAVORS[flavor] + ['-fsyntax-only'] + EXTRA_FLAGS + (extra or []) + ['-I', directory, '-I', MOCK,
                                                                 source]
    try:
        proc = subprocess.run([_b(c) for c in cmd], cwd=directory, capture_output=True,
                              timeout=timeout)
    except subprocess.TimeoutExpired:
        return -9, 'compiler watchdog'
    return proc.returncode, proc.stderr.decode('utf-8', 'replace')


def run_script(directory: str, exe: str, script: str, flavor: str = 'plain', tag: str = 'run',
               timeout: int = 60, env_extra: Optional[Dict[str, str]] = None):
    """-> {'rc', 'log': [records], 'stderr', 'timeout': bool}"""
    # the tag may hold anything (client identifiers, event names): make a file name of it
    safe = re.sub(r'[^A-Za-z0-9_.-]', '_', tag)
    if len(safe) > 80 or safe != tag:
        import zlib  # pylint: disable=import-outside-toplevel
        safe = f'{safe[:80]}_{zlib.crc32(tag.encode("utf-8")):08x}'
    spath = os.path.join(directory, f'{safe}.script')
    lpath = os.path.join(directory, f'{safe}.log')
    with open(spath, 'w', encoding='utf-8') as fh:
        fh.write(script)
    if os.path.exists(lpath):
        os.unlink(lpath)
    env = dict(os.environ)
    env.update(RUN_ENV.get(flavor, {}))
    env.update(env_extra or {})
    try:
        proc = subprocess.run([exe, spath, lpath], cwd=directory, capture_output=True, text=True,
                              timeout=timeout, env=env, errors='replace')
        rc, stderr, timed_out = proc.returncode, proc.stderr, False
    except subprocess.TimeoutExpired as exc:
        rc, stderr, timed_out = -9, (exc.stderr or b'').decode('utf-8', 'replace') \
            if isinstance(exc.stderr, bytes) else (exc.stderr or ''), True
    log = []
    if os.path.exists(lpath):
        with open(lpath, encoding='utf-8', errors='replace') as fh:
            for line in fh:
                line = line.strip()
                if line:
                    try:
                        log.append(json.loads(line))
                    except ValueError:
                        log.append({'kind': 'unparsable', 'raw': line})
    return {'rc': rc, 'log': log, 'stderr': stderr, 'timeout': timed_out}


def first_error(stderr: str) -> str:
    """First compiler/linker error line, with file paths and numbers stripped (mechanism tag)."""
    for line in stderr.splitlines():
        if ' error: ' in line or 'undefined reference' in line or 'fatal error' in line \
                or 'multiple definition' in line:
            msg = line.split('error: ', 1)[-1] if 'error: ' in line else line
            msg = re.sub(r'/[^\s:]+/', '', msg)
            msg = re.sub(r'^\S+\.(cc|o):\(\.text[^)]*\):\s*', '', msg.strip())
            return msg.strip()[:200]
    return stderr.strip().splitlines()[-1][:200] if stderr.strip() else '<no output>'


def normalise_error(msg: str) -> str:
    """Collapse identifiers in quotes and numbers so that the tag names the error class."""
    msg = re.sub(r';.*first defined here', '', msg)
    msg = re.sub(r"[‘'`][^’']*[’']", "'…'", msg)
    msg = re.sub(r'\d+', 'N', msg)
    msg = re.sub(r'\s+', '-', msg.strip())
    return msg[:90]


class ShellProgram:
    """One (model, configuration) built into an executable harness."""

    def __init__(self, gen, ent, enc, info, directory: str):
        self.gen, self.ent, self.enc, self.info, self.dir = gen, ent, enc, info, directory
        self.files: Dict[str, str] = {}
        self.mapping: Dict[str, str] = {}
        self.build_exc = None
        self.compile_err = ''
        self.exe: Dict[str, str] = {}
        # build other shells for the same encapsulee first - the same assignment spelled
        # differently and contrasting assignments - from shared PortSelect objects and one
        # shared Builder: a history that must not leak into this build
        self.warm = True
        # how the application around the shell is built is the user's choice: a development
        # build, or the release build projects ship (CMake's Release configurations define
        # NDEBUG and optimise) - what the shell does may not depend on it
        self.release = False

    def generate(self) -> bool:
        """Run dznpy's builder and write all sources."""
        verdict, _reason, mapping = refcfg.judge(self.enc['provides'], self.enc['requires'],
                                                 self.info['provides'], self.info['requires'],
                                                 self.info['injected'])
        self.mapping = mapping or {}
        warmups = (shellbuild.equivalent_spellings(self.enc, self.info['provides'],
                                                   self.info['requires']) +
                   shellbuild.contrasting_configs(self.enc)) if self.warm else None
        doc = M.to_json(self.gen.model)
        # earlier revisions of the same project were parsed and built in this process before
        res = shellbuild.outcome(self.enc, doc, warmups=warmups,
                                 siblings=shellbuild.revisions_of(doc) if self.warm else None)
        if 'files' not in res:
            self.build_exc = res['exc']
            return False
        self.files = {n: c for n, c, _h in res['files']}
        base = shellbuild.basename(self.enc)
        sources = dict(self.files)
        sources[base + '.hh'] = cxxgen.model_header(self.gen, base)
        header = self.files.get(shellbuild.shell_name(self.enc) + '.hh')
        sources['main.cc'] = cxxgen.harness(
            self.gen, self.info, self.enc, self.mapping,
            shell_class=shellbuild.shell_class(self.enc, header))
        write_files(self.dir, sources)
        return True

    def compile(self, flavor: str = 'plain') -> bool:
        exe = os.path.join(self.dir, f'prog_{flavor}')
        extra = None
        if self.release:
            extra = ['-O2', '-DNDEBUG'] if flavor in ('plain', 'clang') else ['-DNDEBUG']
        rc, err = compile_link(self.dir, ['main.cc', shellbuild.shell_name(self.enc) + '.cc'],
                               exe, flavor, extra)
        self.compile_err = err
        if rc == 0:
            self.exe[flavor] = exe
        return rc == 0

    def run(self, script: str, flavor: str = 'plain', tag: str = 'run', timeout: int = 60):
        return run_script(self.dir, self.exe[flavor], script, flavor, tag, timeout)

    # -- script helpers -----------------------------------------------------------------------
    def locator_shape(self) -> str:
        return 'x' if self.enc.get('origin', 'create') == 'create' else 'prx'

    def events(self):
        """[(port, event IR, user_calls: bool)] over all exposed ports."""
        out = []
        for pname in self.info['provides'] + self.info['requires']:
            p = self.info['ports'][pname]
            itf = self.gen.interface_by_fqn(p['itf'])
            provides = p['direction'] == 'provides'
            for ev in itf.events:
                user_handles = (provides and ev.direction == 'out') or \
                               (not provides and ev.direction == 'in')
                out.append((pname, ev, not user_handles))
        return out

    def is_mc(self, pname: str) -> bool:
        mc = self.enc.get('multiclient')
        return bool(mc and mc['port'] == pname)
