"""C10 - final construction detects every unbound boundary event.

Monitor: outcome log per omitted binding.  One compiled program per (model, configuration);
the script binds every user-side event of every exposed port (of every registered client of a
multi-client port) except one, or unbinds one of the wrapped component's own handlers, and
calls FinalConstruct(): it must throw a binding error iff something is unbound; with all
bound it must return and the component's meta must name the given parent; a client cannot be
registered afterwards.
"""
from .. import common
from .. import cxxlab
from .. import progrun
from .. import scripts
from .. import tracecheck
from .c01 import replay_program

PROP = 'C10'


def eval_program(arg) -> dict:
    seed, stream, scratch, tier = arg
    common.import_dznpy()
    # one program per run exposes a notification-only provides port (out-events only) as MTS
    notify_only = stream % 9 == 5
    # ... and one mixes both semantics among its requires ports (explicit names + 'remaining')
    mixed_requires = stream % 9 == 2

    big = stream % 10 == 6

    def has_user_bound_events(info):
        if big and not (all(info['ports'][p]['n_out'] for p in info['provides']) and
                        all(info['ports'][p]['n_in'] for p in info['requires'])):
            return False      # more than ten ports, and each of them has events the user binds
        # the forced assignments below are only worth something if the ports they address have
        # events the user binds: out-events on a provides port, in-events on a requires port
        provides_out = any(info['ports'][p]['n_out'] for p in info['provides'])
        requires_in = any(info['ports'][p]['n_in'] for p in info['requires'])
        if notify_only:
            return any(info['ports'][p]['n_out'] and not info['ports'][p]['n_in']
                       for p in info['provides'])
        if mixed_requires:
            return sum(1 for p in info['requires'] if info['ports'][p]['n_in']) >= 2
        return requires_in if stream % 2 == 0 else (provides_out and requires_in)
    # the last program of a run arbiters an interface that has no out-events at all
    mc_in_only = stream % 10 == 9
    prog, case, rng = progrun.make_program(
        PROP, seed, stream, scratch, stream % 3 == 1 or mc_in_only,
        mc_position=['first', 'middle', 'last'][(stream // 3) % 3], mc_shape=stream // 3,
        accept=None if mc_in_only else has_user_bound_events, mc_no_outs=mc_in_only,
        big=big)
    # cover every semantics x direction combination in every run, whatever the random draw
    if mixed_requires:
        with_in = [p for p in prog.info['requires'] if prog.info['ports'][p]['n_in']]
        prog.enc['requires'] = {'sts': sorted(with_in[:1]), 'mts': 'REMAINING'} if stream % 2 == 0 \
            else {'sts': 'REMAINING', 'mts': sorted(with_in[:1])}
    elif stream % 2 == 0:
        prog.enc['requires'] = {'sts': 'NONE', 'mts': 'ALL'}
    elif notify_only:
        prog.enc['provides'] = {'sts': 'NONE', 'mts': 'ALL'}
    elif not prog.enc.get('multiclient'):
        prog.enc['provides'] = {'sts': 'ALL', 'mts': 'NONE'}
        prog.enc['requires'] = {'sts': 'REMAINING', 'mts': 'NONE'}
    case['cfg'] = prog.enc
    out = {'violations': [], 'counts': {}}
    flavor = 'plain'
    if not progrun.build_or_report(prog, case, out, [flavor]):
        return progrun.finish_program(prog, out, case)
    mci = scripts.mc_info(prog)
    cnt = out['counts']
    if notify_only:
        cnt['programs_with_a_notification_only_mts_provides_port'] = 1
    if mc_in_only:
        cnt['programs_arbitering_an_interface_without_out_events'] = 1
    if mixed_requires:
        cnt['programs_with_mixed_requires_semantics'] = 1

    def play(lines, tag, expect_throw, what):
        script = '\n'.join(lines) + '\n'
        log = progrun.run_and_collect(prog, script, flavor, tag, out, case)
        if log is None:
            return None
        cnt['final_constructions'] = cnt.get('final_constructions', 0) + 1
        for mech, detail in tracecheck.check_final(log, expect_throw, what):
            detail.update(semantics=what_sem.get(what.split('/')[0]), multiclient=bool(mci))
            out['violations'].append({'mechanism': mech, 'detail': detail, 'case': case,
                                      'files': {'script.txt': script}})
        return log

    what_sem = dict(prog.mapping)
    # the registered clients are an input dimension: how many (none at all included), how they
    # are spelled and in which order they register
    clients = tuple(scripts.client_ids(rng, 1 + (stream // 3) % 3)) if mci else ()
    case['clients'] = list(clients)

    def late_registration_refused(log, registered):
        cnt['late_registrations'] = cnt.get('late_registrations', 0) + 1
        cnt[f'late_registration_after_{len(registered)}_clients'] = 1
        if any(r['kind'] == 'registered' and r['d']['client'] == 'LATE' for r in log):
            out['violations'].append({'mechanism': 'client-registered-after-final-construction',
                                      'detail': {'clients_before': list(registered)}, 'case': case})
        ids = next((r['d']['ids'] for r in log if r['kind'] == 'clients'), '')
        if 'LATE' in ids:
            out['violations'].append({'mechanism': 'client-registered-after-final-construction',
                                      'detail': {'ids': ids, 'clients_before': list(registered)},
                                      'case': case})

    # all bound: must succeed and record the parent
    log = play(scripts.preamble(prog, clients=clients) + ['final', 'addresses'] +
               (['register LATE', 'clients'] if mci else []), 'all_bound', False, '-')
    if log is not None:
        cnt['all_bound_runs'] = 1
        addr = next((r['d'] for r in log if r['kind'] == 'addresses'), None)
        if addr and addr['comp_parent'] != addr['parent']:
            out['violations'].append({'mechanism': 'parent-not-recorded-in-component-meta',
                                      'detail': {}, 'case': case})
        if mci:
            late_registration_refused(log, clients)
    if mci and clients:
        # user code inside the logger calls back into the shell: whenever the shell logs during
        # final construction, the logger registers one more client (whose events nobody binds),
        # under a name that sorts before all others.  Whatever the shell makes of that - it may
        # not log there at all (it does not), refuse the registration, or fail the construction
        # with a binding error - it may not end up finally constructed with a registered client
        # whose events are unbound
        script = '\n'.join(scripts.preamble(prog, clients=clients) +
                           ['nestop log register !first', 'final', 'disarm log', 'clients']) + '\n'
        log = progrun.run_and_collect(prog, script, flavor, 'logger_registers', out, case)
        if log is not None:
            cnt['final_constructions_with_a_logger_that_registers_a_client'] = 1
            ids = next((r['d']['ids'] for r in log if r['kind'] == 'clients'), '')
            came = any(r['kind'] == 'registered' and r['d']['client'] == '!first' for r in log)
            if any(r['kind'] == 'final_ok' for r in log) and (came or '!first' in ids.split(',')):
                out['violations'].append({
                    'mechanism': 'final-construction-succeeded-with-an-unbound-registered-client',
                    'detail': {'registered_from': 'logger callback during FinalConstruct',
                               'clients': ids}, 'case': case})
    if mci:
        # a multi-client port nobody has registered on yet: nothing is unbound, and the
        # registration is closed all the same
        log = play(scripts.preamble(prog, clients=()) + ['final', 'addresses', 'register LATE',
                                                          'clients'], 'no_clients', False, '-')
        if log is not None:
            late_registration_refused(log, ())
    log = play(scripts.preamble(prog, clients=clients) + ['final noparent', 'addresses'], 'no_parent', False, '-')
    if log is not None:
        addr = next((r['d'] for r in log if r['kind'] == 'addresses'), None)
        if addr and addr['comp_parent'] != 0:
            out['violations'].append({'mechanism': 'parent-recorded-although-none-given',
                                      'detail': {}, 'case': case})
    # exactly one binding missing
    user_bound, comp_bound = [], []
    for pname, ev, user_calls in prog.events():
        (comp_bound if user_calls else user_bound).append((pname, ev))
    limit = 12 if tier == 'quick' else 40

    def spread(pairs):
        """At most `limit` + one per port: every port is represented (the last ones too)."""
        if len(pairs) <= limit:
            return pairs
        first = {}
        for pname, ev in pairs:
            first.setdefault(pname, (pname, ev))
        rest = [p for p in pairs if p not in first.values()]
        return list(first.values()) + rng.sample(rest, min(len(rest), max(0, limit - len(first))))
    picks = spread(user_bound)
    for pname, ev in picks:
        key = f'{pname}/{ev.name}'
        for client in (clients if (mci and mci['port'] == pname) else ['-']):
            play(scripts.preamble(prog, clients=clients, skip=key, skip_client=client) + ['final'],
                 f'skip_{pname}_{ev.name}_{client}', True, key)
            cnt['user_side_bindings_omitted'] = cnt.get('user_side_bindings_omitted', 0) + 1
            sem = prog.mapping.get(pname)
            cnt[f'omitted_on_{sem}_port'] = cnt.get(f'omitted_on_{sem}_port', 0) + 1
            pdir = prog.info['ports'][pname]['direction']
            cnt[f'omitted_on_{sem}_{pdir}_port'] = cnt.get(f'omitted_on_{sem}_{pdir}_port', 0) + 1
            if client != '-':
                cnt['omitted_on_multiclient_port'] = cnt.get('omitted_on_multiclient_port', 0) + 1
    picks = spread(comp_bound)
    for pname, ev in picks:
        key = f'{pname}/{ev.name}'
        play(scripts.preamble(prog, clients=clients) + [f'compunbind {key}', 'final'],
             f'compunbind_{pname}_{ev.name}', True, key)
        cnt['component_side_bindings_omitted'] = cnt.get('component_side_bindings_omitted', 0) + 1
    # bound, then unbound again (late unbind of a user-side event)
    if user_bound:
        pname, ev = rng.choice(user_bound)
        client = clients[-1] if (mci and mci['port'] == pname) else '-'
        play(scripts.preamble(prog, clients=clients) + [f'unbind {pname}/{ev.name} {client}', 'final'],
             f'unbind_{pname}_{ev.name}', True, f'{pname}/{ev.name}')
        cnt['rebound_then_unbound'] = 1
    cnt['programs'] = 1
    return progrun.finish_program(prog, out, case, nontrivial=bool(user_bound or comp_bound))


def main(tier: str) -> int:
    if not cxxlab.tools_available():
        raise common.Inconclusive('g++ / clang++-14 not available')
    run = common.Run(PROP, tier, level='fault_enumeration')
    n = 10 if tier == 'quick' else 200
    run.require('final_constructions', 'all_bound_runs', 'user_side_bindings_omitted',
                'final_constructions_with_a_logger_that_registers_a_client', 'programs_of_big_size',
                'component_side_bindings_omitted', 'omitted_on_STS_port', 'omitted_on_MTS_port',
                'omitted_on_multiclient_port', 'late_registrations',
                'late_registration_after_0_clients',
                'programs_with_a_notification_only_mts_provides_port',
                'programs_arbitering_an_interface_without_out_events',
                'programs_with_mixed_requires_semantics',
                'omitted_on_MTS_requires_port', 'omitted_on_MTS_provides_port',
                'omitted_on_STS_requires_port', 'omitted_on_STS_provides_port')
    scratch = run.scratch()
    progrun.drive(run, eval_program, [(run.seed, i, scratch, tier) for i in range(n)])
    return run.finish(
        rule='random models/configurations (every third with a multi-client port with 1-3 clients '
             'of structured identifiers registered in ascending, descending or arbitrary order); '
             'per program: all bound (must succeed, parent recorded, late registration refused; '
             'for multi-client ports also with no client registered at all), then one run per omitted binding over all user-side events '
             'of all exposed ports (per client) and over the component\'s own handlers (capped at '
             '12/40 each per program), each of which must end in a binding error; evaluations = '
             'programs',
        assumptions=['the mock component checks its own ports in check_bindings() like '
                     'Dezyne-generated components do (dzn::check_bindings over ports_connected)'])


def replay(path: str) -> int:
    return replay_program(PROP, eval_program, path)
