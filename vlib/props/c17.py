"""C17 - text blocks keep one line per entry and flatten content losslessly.

Monitors: (1) reference-model comparison of TextBlock/chunk/cond_chunk/trim results with an
independent flattener and line splitter (vlib.textref); (2) a class invariant ("no stored line
contains a line break, every line is a str") evaluated after every public TextBlock call,
installed by wrapping the class from the harness, also while whole shells are built.
"""
import random

from .. import common
from .. import textref as T

PROP = 'C17'
_INV = {'evals': 0, 'broken': []}


# ---------------------------------------------------------------------------------------------
# class invariant
# ---------------------------------------------------------------------------------------------

def install_invariant():
    """Wrap the public mutators of TextBlock; idempotent."""
    from dznpy import text_gen  # pylint: disable=import-outside-toplevel
    cls = text_gen.TextBlock
    if getattr(cls, '_verif_wrapped', False):
        return
    cls._verif_wrapped = True

    def check(self, where):
        _INV['evals'] += 1
        for attr in ('_lines', '_header'):
            for line in getattr(self, attr, []):
                if not isinstance(line, str) or T.has_boundary(line):
                    if len(_INV['broken']) < 5:
                        _INV['broken'].append({'where': where, 'attr': attr, 'line': repr(line)})

    def wrap(name):
        orig = getattr(cls, name)

        def wrapper(self, *args, **kwargs):
            out = orig(self, *args, **kwargs)
            check(self, name)
            return out
        wrapper.__name__ = name
        setattr(cls, name, wrapper)

    for name in ('__init__', 'append', '__iadd__', 'indent', 'trim'):
        if name in vars(cls):      # a method the class does not define itself is not hooked
            wrap(name)


# ---------------------------------------------------------------------------------------------
# cases
# ---------------------------------------------------------------------------------------------

def build_case(rng: random.Random) -> dict:
    kind = rng.choice(['construct'] * 4 + ['append'] * 3 + ['trim'] * 2 + ['chunk'] * 2
                      + ['cond_chunk'] * 2)
    if kind == 'construct':
        case = {'kind': kind, 'content': T.rand_content(rng, rng.randint(0, 4))}
        if rng.random() < 0.25:
            case['header'] = T.rand_nonempty_text(rng)
        return case
    if kind == 'append':
        case = {'kind': kind, 'base': T.rand_content(rng, 2),
                'ops': [[rng.choice(['append', 'iadd', 'add']), T.rand_content(rng, 2)]
                        for _ in range(rng.randint(1, 4))]}
        if rng.random() < 0.04:
            # a block of a thousand lines and more (a generated table, a long listing)
            case['bulk'] = rng.choice([990, 999, 1000, 1001, 2500])
        return case
    if kind == 'trim':
        pool = ['', '', ' ', '\t', 'a', ' b ', 'c', '0']
        return {'kind': kind, 'lines': [rng.choice(pool) for _ in range(rng.randint(0, 8))],
                'end_only': rng.random() < 0.4}
    if kind == 'chunk':
        case = {'kind': kind, 'content': T.rand_content(rng, 3)}
        if rng.random() < 0.5:
            case['appendix'] = rng.choice([None, 'end', ['e1', 'e2'], 'x\ny', {'tb': 'z'}])
        return case
    return {'kind': kind, 'preamble': rng.choice([None, 'Pre:', ['p1', 'p2'], T.rand_nonempty_text(rng)]),
            'content': T.rand_content(rng, 3),
            'empty_response': rng.choice([None, '<none>', ['r1', 'r2'], T.rand_nonempty_text(rng)]),
            'all_or_nothing': rng.random() < 0.5,
            'appendix': rng.choice(['\n', None, 'end', ['e1', 'e2']])}


def _viol(out, mech, case, **detail):
    out['violations'].append({'mechanism': mech, 'detail': detail, 'case': case})


def eval_case(case: dict) -> dict:
    common.import_dznpy()
    from dznpy import text_gen  # pylint: disable=import-outside-toplevel
    install_invariant()
    TB = text_gen.TextBlock
    out = {'violations': [], 'counts': {}}
    cnt = out['counts']
    kind = case['kind']
    cnt[f'cases_{kind}'] = 1
    before_broken = len(_INV['broken'])
    before_evals = _INV['evals']
    try:
        if kind == 'construct':
            enc = {'tb': case['content'], 'header': case.get('header')}
            tb = T.decode(enc, TB)
            exp_lines = T.ref_lines(case['content'])
            exp_hdr = T.ref_header(case.get('header'))
            if tb.lines != exp_lines:
                _viol(out, 'lines-differ-from-reference', case, expected=exp_lines[:20],
                      got=tb.lines[:20])
            exp_str = ''.join(line + '\n' for line in exp_hdr + exp_lines)
            if str(tb) != exp_str:
                _viol(out, 'string-form-differs', case, expected=exp_str[:200], got=str(tb)[:200])
            cnt['lines_compared'] = len(exp_lines)
            if exp_lines and not exp_hdr:
                again = TB(str(tb))
                cnt['roundtrips'] = 1
                if again.lines != tb.lines:
                    _viol(out, 'roundtrip-differs', case, lines=tb.lines[:20],
                          again=again.lines[:20])
            if any(T.has_boundary(c) for c in _all_strings(case['content'])):
                cnt['cases_with_line_boundaries'] = 1
            # a block poured into another - as the whole content, appended to an empty block,
            # or as the header - and both blocks going on with their own lives: the lines of
            # each stay the pieces that were put into *it*
            if exp_lines:
                route = len(exp_lines) % 4

                def pour():
                    src = TB(list(exp_lines))
                    if route == 0:
                        dst = TB(src)
                    elif route == 1:
                        dst = TB().append(src)
                    elif route == 2:
                        dst = TB()
                        dst += src
                    else:
                        dst = TB('body', header=src)
                    return src, dst
                cnt['blocks_poured_into_blocks'] = 1
                src, dst = pour()
                snap = list(src.lines)
                dst.append('QZ-added-to-the-copy')
                if src.lines != snap:
                    _viol(out, 'source-block-changed-through-the-block-made-from-it', case,
                          route=route, source=src.lines[:10])
                src, dst = pour()
                snap_lines, snap_str = list(dst.lines), str(dst)
                src.append('QZ-added-to-the-source')
                if dst.lines != snap_lines or str(dst) != snap_str:
                    _viol(out, 'block-changed-through-the-block-it-was-made-from', case,
                          route=route, got=str(dst)[:120])
        elif kind == 'append':
            tb = TB(T.decode(case['base'], TB))
            expected = list(T.ref_lines(case['base']))
            if case.get('bulk'):
                bulk = [f'line {k}' for k in range(case['bulk'])]
                tb.append(list(bulk))
                expected.extend(bulk)
                cnt['blocks_of_a_thousand_lines_and_more'] = 1
            if str(tb) != ''.join(x + '\n' for x in expected):
                _viol(out, 'string-form-differs-from-lines', case, got=str(tb)[-120:])
            operands = []
            for op, enc in case['ops']:
                arg = T.decode(enc, TB)
                arg_lines = T.ref_lines(enc)
                if op == 'append':
                    ret = tb.append(arg)
                    if ret is not tb:
                        _viol(out, 'append-does-not-return-self', case)
                elif op == 'iadd':
                    same = tb
                    tb += arg
                    if tb is not same:
                        _viol(out, 'iadd-not-in-place', case)
                else:
                    left_before = list(tb.lines)
                    new = tb + arg
                    if tb.lines != left_before:
                        _viol(out, 'add-mutates-left-operand', case)
                    if new is tb or new is arg:
                        # a sum is a block of its own, whichever operand is empty: what is
                        # appended to it later is not appended to an operand
                        _viol(out, 'add-returns-self' if new is tb else 'add-returns-its-right-operand',
                              case, left_lines=len(left_before))
                    if isinstance(arg, TB):
                        operands.append((arg, list(arg.lines), str(arg)))
                    tb = new
                expected.extend(arg_lines)
                cnt['concatenations'] = cnt.get('concatenations', 0) + 1
                if tb.lines != expected:
                    _viol(out, f'{op}-is-not-concatenation', case, expected=expected[:20],
                          got=tb.lines[:20])
                    break
                # the string form follows: every line and a newline, after every step (a block
                # is printed, extended, printed again)
                if str(tb) != ''.join(x + '\n' for x in expected):
                    _viol(out, 'string-form-differs-from-lines', case, after=op,
                          expected_tail=expected[-3:], got=str(tb)[-120:])
                    break
            for operand, lines_then, str_then in operands:
                cnt['right_operands_of_a_sum_compared_at_the_end'] = \
                    cnt.get('right_operands_of_a_sum_compared_at_the_end', 0) + 1
                if operand.lines != lines_then or str(operand) != str_then:
                    _viol(out, 'operand-of-a-sum-changed-by-later-appends', case,
                          before=lines_then[:8], after=operand.lines[:8])
        elif kind == 'trim':
            tb = TB()
            tb.lines = list(case['lines'])
            orig = list(case['lines'])
            ret = tb.trim(end_only=case['end_only'])
            got = tb.lines
            cnt['trims'] = 1
            if ret is not tb:
                _viol(out, 'trim-does-not-return-self', case)
            ok = False
            for i in range(len(orig) + 1):
                for j in range(i, len(orig) + 1):
                    # 'blank line' is what the statement says an empty string contributes: an
                    # empty line; a line holding white space is content
                    if orig[i:j] != got or any(x != '' for x in orig[:i] + orig[j:]):
                        continue
                    if case['end_only'] and i != 0:
                        continue
                    if got and got[-1] == '':
                        continue          # a trailing empty line was left
                    if got and got[0] == '' and not case['end_only']:
                        continue          # a leading empty line was left
                    ok = True
            if not ok:
                _viol(out, 'trim-not-a-blank-trimmed-slice', case, got=got)
        elif kind == 'chunk':
            args = [T.decode(case['content'], TB)]
            appendix_enc = case.get('appendix', '\n') if 'appendix' in case else '\n'
            if 'appendix' in case:
                args.append(T.decode(case['appendix'], TB))
            res = text_gen.chunk(*args)
            state = T.has_content(case['content'])
            cnt['chunks'] = 1
            if state is None:
                # empty strings only: whether that counts as empty content is left open, but
                # the result is one of the two the statement knows - nothing, or content plus
                # appendix
                cnt['unspecified_empty_string_content'] = 1
                exp = T.ref_lines(case['content']) + T.ref_lines(appendix_enc)
                if res is not None and res.lines != exp:
                    _viol(out, 'chunk-differs', case, expected=exp[:20], got=res.lines[:20])
            elif state is False:
                if res is not None:
                    _viol(out, 'chunk-of-empty-content-not-none', case, got=res.lines[:10])
            else:
                exp = T.ref_lines(case['content']) + T.ref_lines(appendix_enc)
                if res is None or res.lines != exp:
                    _viol(out, 'chunk-differs', case, expected=exp[:20],
                          got=None if res is None else res.lines[:20])
        else:  # cond_chunk
            res = text_gen.cond_chunk(T.decode(case['preamble'], TB), T.decode(case['content'], TB),
                                      T.decode(case['empty_response'], TB),
                                      T.decode(case['appendix'], TB), case['all_or_nothing'])
            state = T.has_content(case['content'])
            cnt['cond_chunks'] = 1
            pre = T.ref_lines(case['preamble'])
            app = T.ref_lines(case['appendix'])
            if state is None:
                # as for chunk: either the branch for content or the one for empty content
                cnt['unspecified_empty_string_content'] = 1
                resp = T.ref_lines(case['empty_response'])
                full = pre + T.ref_lines(case['content']) + app
                if case['all_or_nothing']:
                    empty = resp or None
                else:
                    empty = (pre + resp + app) if (pre or resp) else None
                got = None if res is None else res.lines
                if got != full and got != empty and not (got == [] and empty is None):
                    _viol(out, 'cond_chunk-differs-from-both-branches', case, with_content=full[:20],
                          without=empty if empty is None else empty[:20], got=got[:20] if got else got)
            elif state:
                exp = pre + T.ref_lines(case['content']) + app
                if res is None or res.lines != exp:
                    _viol(out, 'cond_chunk-with-content-differs', case, expected=exp[:20],
                          got=None if res is None else res.lines[:20])
            elif case['all_or_nothing']:
                exp = T.ref_lines(case['empty_response'])
                got = None if res is None else res.lines
                if (got or []) != exp or (not exp and res is not None):
                    _viol(out, 'cond_chunk-all-or-nothing-differs', case, expected=exp, got=got)
            else:
                resp = T.ref_lines(case['empty_response'])
                exp = (pre + resp + app) if (pre or resp) else None
                got = None if res is None else res.lines
                if got != exp:
                    _viol(out, 'cond_chunk-empty-differs', case, expected=exp, got=got)
    except Exception as exc:  # pylint: disable=broad-except
        info = common.classify_exception(exc)
        _viol(out, f'exception:{info["type"]}@{info["where"]}', case, **info)
    cnt['invariant_evaluations'] = _INV['evals'] - before_evals
    for broken in _INV['broken'][before_broken:]:
        _viol(out, f'invariant:stored-line-with-line-break@{broken["where"]}', case, **broken)
    del _INV['broken'][before_broken:]
    out['digest'] = common.digest(case)
    out['nontrivial'] = _nontrivial(case)
    out['sample'] = case
    return out


def _all_strings(enc):
    if isinstance(enc, str):
        yield enc
    elif isinstance(enc, list):
        for item in enc:
            yield from _all_strings(item)
    elif isinstance(enc, dict):
        for val in (enc.get('dict') and [v for _k, v in enc['dict']]) or []:
            yield from _all_strings(val)
        if 'tb' in enc:
            yield from _all_strings(enc['tb'])


def _nontrivial(case) -> bool:
    if case['kind'] == 'construct':
        return isinstance(case['content'], (list, dict)) and len(T.ref_lines(case['content'])) >= 2
    if case['kind'] == 'append':
        return len(T.ref_lines(case['base'])) + sum(len(T.ref_lines(e)) for _o, e in case['ops']) >= 2
    if case['kind'] == 'trim':
        return any(x == '' for x in case['lines']) and any(x.strip() for x in case['lines'])
    return T.has_content(case['content']) is not None


def _worker(arg):
    seed, chunk_no, count = arg
    rng = random.Random(f'{PROP}:{seed}:{chunk_no}')
    agg = {'violations': [], 'counts': {}, 'cases': []}
    shared_before = T.SHARING['decoded_with_shared_pieces']
    for _ in range(count):
        case = build_case(rng)
        res = eval_case(case)
        for key, val in res['counts'].items():
            agg['counts'][key] = agg['counts'].get(key, 0) + val
        agg['violations'].extend(res['violations'][:3])
        agg['cases'].append((res['digest'], res['nontrivial']))
    agg['counts']['pieces_that_are_one_object_at_several_places'] = \
        T.SHARING['decoded_with_shared_pieces'] - shared_before
    agg['sample'] = case
    return agg


def main(tier: str) -> int:
    run = common.Run(PROP, tier)
    total = 20000 if tier == 'quick' else 1000000
    per = 500 if tier == 'quick' else 5000
    run.require('lines_compared', 'invariant_evaluations', 'concatenations', 'trims', 'chunks',
                'blocks_poured_into_blocks',
                'cond_chunks', 'roundtrips', 'cases_with_line_boundaries',
                'pieces_that_are_one_object_at_several_places',
                'blocks_of_a_thousand_lines_and_more',
                'right_operands_of_a_sum_compared_at_the_end')
    jobs = [(run.seed, i, per) for i in range(total // per)]
    for _item, res in run.pmap(_worker, jobs):
        if 'harness_error' in res:
            run.mark_inconclusive('harness error: ' + res['harness_error'][-300:])
            continue
        for dig, nontrivial in res['cases']:
            run.case(dig, nontrivial)
        if len(run.samples) < run.max_samples:
            run.samples.append(common.jsonable(res['sample']))
        run.merge_counts(res['counts'])
        for v in res['violations']:
            run.violation(v['mechanism'], v.get('detail'), v.get('case'))
    from . import buildmon  # pylint: disable=import-outside-toplevel
    buildmon.textblock_invariant_during_builds(run, install_invariant, _INV,
                                               n_builds=6 if tier == 'quick' else 60)
    return run.finish(
        rule='random nestings (depth 0-4) of str/int/float/bool/None/list/dict/TextBlock over an '
             'alphabet holding all 11 line boundaries, spaces, tabs and empty strings, driven '
             'through TextBlock(), append, +=, +, trim, chunk, cond_chunk; distinct = digest of '
             'the encoded case; non-trivial = nested content with >=2 resulting lines (construct/'
             'append), a trim input holding both empty and non-blank lines, or a chunk whose '
             'content is decidedly empty or decidedly non-empty',
        assumptions=['content consisting only of empty strings is not judged for chunk()/'
                     'cond_chunk() (the statement leaves "empty content" open there)',
                     'a nested text block with a header is not generated (unspecified)'])


def replay(path: str) -> int:
    return common.generic_replay(PROP, eval_case, path)
