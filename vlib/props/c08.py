"""C08 - output is a pure function of model and configuration.

Monitor: digest comparison across executions.  The same (model, configuration) cases are
built in child interpreters started with different PYTHONHASHSEED values and with the
configuration's name sets constructed in different insertion orders, several passes per
process; file names, sha256 of contents and the `hash` property must agree everywhere, and
`hash` must equal an MD5 of the UTF-8 contents recomputed with hashlib.
"""
import copy
import json
import os
import random
import subprocess
import sys

from .. import cfggen
from .. import common
from .. import model as M

PROP = 'C08'
CHILD = os.path.join(os.path.dirname(os.path.dirname(os.path.abspath(__file__))), 'c08_child.py')


def explicit_sets(enc) -> int:
    return max(len(sel) if isinstance(sel, list) else 0
               for side in ('provides', 'requires') for sel in enc[side].values())


FAMILIES = [
    ['qAbc', 'qabc', 'qABC', 'qaBc'],          # equal when case-folded (first letter kept: D12)
    ['p_a1', 'pa1', 'p_a_1', 'pa_1'],          # equal when underscores are dropped
    ['raa', 'rab', 'rac', 'rad'],              # equal length, equal prefix
    ['s1', 's01', 's001', 's0001'],            # equal as numbers
    ['tX', 'tXx', 'tXxx', 'tXxxx'],            # equal first two characters
]


def mixed_requires(case) -> bool:
    req = case['cfg']['requires']
    return all(isinstance(req[k], list) or req[k] == 'REMAINING' for k in ('sts', 'mts')) and \
        any(isinstance(req[k], list) for k in ('sts', 'mts'))


def rename_to_family(rng: random.Random, gen, ent, info, index: int = 0):
    """Rename the exposed ports of the encapsulee to near-duplicate names: orderings that rely
    on a non-injective key (case-folded, stripped, by length ...) then fall back to set order."""
    comp = ent[1]
    fam = FAMILIES[index % len(FAMILIES)]
    for side, tag in (('provides', 'P'), ('requires', 'R')):
        ports = [p for p in comp.ports if p.direction == side and not p.injected]
        names = [n[0] + tag + n[1:] for n in fam]
        rng.shuffle(names)
        for port, name in zip(ports[:len(names)], names):
            port.name = name
    return cfggen.comp_info(gen, ent)


def gen_cases(rng: random.Random, count: int):
    cases = []
    tries = 0
    renamed = 0
    mixed_forced = 0
    while len(cases) < count and tries < count * 200:
        tries += 1
        gen, ent, enc, info = cfggen.gen_shell_case(rng, hostile_text=True)
        if tries % 2 == 0 and not enc.get('multiclient') and \
                max(len(info['provides']), len(info['requires'])) >= 2:
            info = rename_to_family(rng, gen, ent, info, index=renamed)
            renamed += 1
            enc = dict(cfggen.rand_cfg(rng, gen, ent, multiclient=False, hostile_text=True),
                       requires={'sts': sorted(info['requires']), 'mts': 'NONE'}
                       if info['requires'] else {'sts': 'REMAINING', 'mts': 'NONE'},
                       provides={'sts': 'NONE', 'mts': sorted(info['provides'])}
                       if info['provides'] else {'sts': 'NONE', 'mts': 'ALL'})
        want = 2 if len(cases) < count * 0.8 else 0
        if explicit_sets(enc) < want:
            # force explicit name sets where the component has enough ports
            if len(info['requires']) >= 2:
                names = sorted(info['requires'])
                k = rng.randint(1, len(names))
                enc['requires'] = rng.choice([
                    {'sts': names[:k], 'mts': names[k:] or 'NONE'},
                    {'sts': 'REMAINING', 'mts': names}, {'sts': names, 'mts': 'NONE'}])
            if len(info['provides']) >= 2 and not enc['multiclient']:
                enc['provides'] = {'sts': sorted(info['provides']), 'mts': 'NONE'}
            if explicit_sets(enc) < 2:
                continue
        if len(info['requires']) >= 2 and (mixed_forced == 0 or len(cases) % 4 == 1):
            mixed_forced += 1
            # both semantics in use on the requires side (every overview section is emitted)
            names = sorted(info['requires'])
            k = rng.randint(1, len(names) - 1)
            enc['requires'] = rng.choice([{'sts': names[:k], 'mts': names[k:]},
                                          {'sts': names[:k], 'mts': 'REMAINING'},
                                          {'sts': 'REMAINING', 'mts': names[k:]}])
        if len(cases) % 3 == 0:
            enc['copyright'] = rng.choice(['© é ü 漢字', 'naïve\n\u2028sep', 'Ünïcødé ✓'])
        if len(cases) % 5 == 3:
            # sizes beyond the usual: long prefix, one-line notice, creator text - and a model
            # file whose base name (plus suffix) goes beyond 96 / 255 characters
            cfggen.enlarge(rng, enc)
            if len(cases) % 10 == 3:
                enc['filename'] = 'VeryLongModelFileName' * 13 + '.dzn'
        doc = M.to_json(gen.model)
        if len(cases) % 3 == 1:
            # text outside ASCII inside the model itself (the C++ type an extern stands for)
            doc = json.loads(json.dumps(doc).replace('::vx::T', '::vx::Gr\\u00f6\\u00dfe_T'))
        cases.append({'doc': doc, 'cfg': enc})
        if len(cases) % 4 == 1 and len(cases) < count:
            # a second revision of the same model: every name is the same, the externs mean
            # other C++ types - built in the same processes as the first, in either order
            revised = json.loads(json.dumps(cases[-1]['doc']).replace('::vx::T', '::vx::Rev2_T'))
            cases.append({'doc': revised, 'cfg': copy.deepcopy(enc), 'revision_of': len(cases) - 1})
    return cases


AMBIENTS = ['plain', 'model-file-present', 'model-file-is-symlink', 'other-user-and-time']


def prepare_ambient(kind: str, cases, root: str):
    """-> (cwd, env changes).  'The process it runs in' has a working directory, a file system
    around it, environment variables and a clock; none of them is an input of a build."""
    cwd = os.path.join(root, kind)
    os.makedirs(cwd, exist_ok=True)
    env = {}
    if kind in ('model-file-present', 'model-file-is-symlink'):
        os.makedirs(os.path.join(cwd, 'store'), exist_ok=True)
        for idx, case in enumerate(cases):
            name = case['cfg'].get('filename', '')
            if not name or os.path.isabs(name) or name.endswith('/') or \
                    any(len(part.encode('utf-8')) > 250 for part in name.split('/')):
                continue        # (no file system holds a name that long)
            # create the directories the relative name walks through, '..' included
            here = cwd
            parts = name.split('/')
            for part in parts[:-1]:
                here = os.path.normpath(os.path.join(here, part))
                os.makedirs(here, exist_ok=True)
            target = os.path.join(here, parts[-1])
            if os.path.lexists(target):
                continue
            if kind == 'model-file-present':
                with open(target, 'w', encoding='utf-8') as fh:
                    fh.write('// a Dezyne model\n')
            else:
                stored = os.path.join(cwd, 'store', f'{idx:04x}c0ffee-other_name_rev7.dzn')
                with open(stored, 'w', encoding='utf-8') as fh:
                    fh.write('// a Dezyne model\n')
                os.symlink(stored, target)
    if kind == 'other-user-and-time':
        # ... and an interpreter set up differently: optimised, no UTF-8 default encoding,
        # warnings of the library as errors, logging at DEBUG (see vlib.surroundings)
        env = {'HOME': '/nonexistent/home', 'USER': 'someone-else', 'LOGNAME': 'someone-else',
               'TZ': 'Pacific/Kiritimati', 'LANG': 'C', 'LC_ALL': 'C', 'COLUMNS': '40',
               'PYTHONUTF8': '0', 'PYTHONCOERCECLOCALE': '0', 'PYTHONOPTIMIZE': '1',
               'VERIF_CHILD_SETUP': 'warnings,logging',
               'VERIF_CLOCK_SHIFT': str(400 * 86400 + 7 * 3600 + 11 * 60)}
    return cwd, env


def run_child(path, hashseed, order_seed, passes=2, cwd=None, env_extra=None):
    env = dict(os.environ, PYTHONHASHSEED=str(hashseed), PYTHONDONTWRITEBYTECODE='1')
    env.update(env_extra or {})
    proc = subprocess.run([sys.executable, CHILD, path, str(order_seed), str(passes)],
                          env=env, capture_output=True, text=True, timeout=600, cwd=cwd)
    if proc.returncode != 0:
        return {'error': proc.stderr[-800:]}
    return json.loads(proc.stdout)


def _worker(arg):
    path, hashseed, order_seed, cwd, env_extra = arg
    try:
        return run_child(path, hashseed, order_seed, cwd=cwd, env_extra=env_extra)
    except subprocess.TimeoutExpired:
        return {'error': 'timeout'}


def main(tier: str) -> int:
    run = common.Run(PROP, tier)
    n_cases = 12 if tier == 'quick' else 200
    # two near-duplicate names tie under a wrong sort key; whether the tie shows depends on the
    # hash seed alone (1 in 2 per seed), so even the quick tier takes eight of them
    seeds = list(range(8)) if tier == 'quick' else list(range(48))
    cases = gen_cases(run.rng('cases'), n_cases)
    path = os.path.join(run.scratch(), 'cases.json')
    with open(path, 'w', encoding='utf-8') as fh:
        json.dump(cases, fh)
    ambients = {kind: prepare_ambient(kind, cases, os.path.join(run.scratch(), 'ambient'))
                for kind in AMBIENTS}
    jobs, kind_of, shared_builder_jobs, shared_cfg_jobs = [], {}, [], []
    for hs in seeds:
        for k in range(2):
            kind = AMBIENTS[len(jobs) % len(AMBIENTS)]
            cwd, env_extra = ambients[kind]
            if len(jobs) % 2:
                env_extra = dict(env_extra, VERIF_REVERSE_CASES='1')
            if len(jobs) % 8 == 5:
                # long use: two of the cases regenerated four hundred times in that child
                env_extra = dict(env_extra, VERIF_REGENERATE='400')
            if (len(jobs) // 2) % 2:
                # the model comes from a file (UTF-8, as the Dezyne tools write it)
                env_extra = dict(env_extra, VERIF_MODEL_FROM_FILE='1')
            if len(jobs) % 3 == 2:
                env_extra = dict(env_extra, VERIF_SHARED_CONFIGURATION='1')
                shared_cfg_jobs.append((hs, (hs * 7 + k) if k else 'none'))
            if (len(jobs) // len(AMBIENTS)) % 2:
                env_extra = dict(env_extra, VERIF_SHARED_BUILDER='1')
                shared_builder_jobs.append((hs, (hs * 7 + k) if k else 'none'))
            jobs.append((path, hs, (hs * 7 + k) if k else 'none', cwd, env_extra))
            kind_of[(hs, jobs[-1][2])] = kind
    reference = {}
    run.require('executions_compared', 'md5_recomputed', 'cases_with_non_ascii_contents',
                'builds_in_a_regeneration_loop_with_hashes_recomputed',
                'cases_of_big_size', 'cases_with_an_output_name_beyond_255_characters',
                'cases_with_non_ascii_text_in_the_model', 'children_loading_the_model_from_a_file',
                'cases_with_relative_model_filename', 'cases_with_mixed_requires_semantics',
                'children_with_one_builder_for_all_cases', 'cases_that_are_a_second_revision_of_another',
                'children_with_one_configuration_object_for_all_cases',
                *[f'child_in_ambient_{kind}' for kind in AMBIENTS])
    for (_p, hashseed, order_seed, _cwd, _env), res in run.pmap(_worker, jobs):
        if 'error' in res:
            run.mark_inconclusive(f'child interpreter failed: {res["error"][-300:]}')
            continue
        run.count('child_interpreters')
        run.count(f'child_in_ambient_{kind_of[(hashseed, order_seed)]}')
        if (hashseed, order_seed) in shared_builder_jobs:
            run.count('children_with_one_builder_for_all_cases')
        if (hashseed, order_seed) in shared_cfg_jobs:
            run.count('children_with_one_configuration_object_for_all_cases')
        for pas, idx, out in res['results']:
            case = cases[idx]
            ident = {'hashseed': hashseed, 'order_seed': order_seed, 'pass': pas,
                     'ambient': kind_of[(hashseed, order_seed)]}
            if 'regenerated' in out:
                run.count('builds_in_a_regeneration_loop_with_hashes_recomputed', out['regenerated'])
                if out['wrong_hashes']:
                    run.violation('hash-is-not-md5-of-utf8-contents',
                                  dict(ident, after='hundreds of regenerations in one process',
                                       wrong=out['wrong_hashes'], of=out['regenerated']), case,
                                  klass='hash-is-not-md5-of-utf8-contents:after-long-use')
                continue
            if 'exc' in out:
                run.violation(f'valid-build-failed:{out["exc"]["type"]}', dict(out['exc'], **ident),
                              case)
                continue
            run.count('executions_compared')
            for name, _sha, prop_hash, md5 in out['files']:
                run.count('md5_recomputed')
                if prop_hash != md5:
                    run.violation('hash-is-not-md5-of-utf8-contents',
                                  dict(ident, file_kind=name.rsplit('_', 1)[-1]), case)
            key = [(n, s, h) for n, s, h, _m in out['files']]
            if idx not in reference:
                reference[idx] = (key, ident)
            elif reference[idx][0] != key:
                ref_key, ref_ident = reference[idx]
                differing = [a[0] for a, b in zip(ref_key, key) if a != b] or ['<file list>']
                kind = 'shell-header' if differing[0].endswith('.hh') and '_Dzn_' not in \
                    differing[0] and not differing[0].startswith('Dzn_') else differing[0][-12:]
                run.violation('output-differs-between-executions',
                              {'files': differing, 'file_kind': kind, 'a': ref_ident, 'b': ident,
                               'same_process': ref_ident['hashseed'] == hashseed and
                               ref_ident['order_seed'] == order_seed}, case,
                              klass='output-differs-between-executions:' + (
                                  'same-process' if ref_ident['hashseed'] == hashseed and
                                  ref_ident['order_seed'] == order_seed else 'across-processes'))
    for idx, case in enumerate(cases):
        run.case(common.digest(case), explicit_sets(case['cfg']) >= 2,
                 {'cfg': case['cfg']} if idx < 3 else None)
    run.extra['executions_per_case'] = len(jobs) * 2
    run.count('cases_that_are_a_second_revision_of_another', sum(1 for c in cases if 'revision_of' in c))
    run.count('cases_with_mixed_requires_semantics', sum(1 for c in cases if mixed_requires(c)))
    run.count('cases_with_relative_model_filename',
              sum(1 for c in cases if c['cfg'].get('filename') and not os.path.isabs(c['cfg']['filename'])))
    run.count('cases_of_big_size', sum(1 for c in cases if c['cfg'].get('big')))
    run.count('cases_with_an_output_name_beyond_255_characters', sum(1 for c in cases if len(os.path.basename(c['cfg'].get('filename', ''))) > 255))
    run.count('cases_with_non_ascii_contents', sum(1 for c in cases if not c['cfg']['copyright'].isascii()))
    run.count('cases_with_non_ascii_text_in_the_model', sum(1 for c in cases if not json.dumps(c['doc'], ensure_ascii=False).isascii()))
    run.count('children_loading_the_model_from_a_file', sum(1 for j in jobs if j[4].get('VERIF_MODEL_FROM_FILE')))
    run.extra['hashseeds'] = seeds
    return run.finish(
        rule='valid (model, configuration) cases built in child interpreters: PYTHONHASHSEED '
             'values x {sets built in written order, sets built in a permuted order} x 2 passes '
             'per process, the processes cycling through four surroundings (plain; working '
             'directory in which the configured model file name exists as a regular file; as a '
             'symbolic link to a differently named file; other HOME/USER/TZ/locale and a clock '
             '400 days ahead), every other group of processes serving all its cases from one '
             'Builder object, every third filling one Configuration object in anew for every case, '
             'every other process building the cases in reverse order (some '
             'cases are a second revision of their neighbour: same names, other extern types); all executions of a case must agree on file names, sha256(contents) '
             'and hash; evaluations = cases; non-trivial = a selection naming >=2 ports',
        assumptions=['equal inputs = same JSON document and same configuration encoding'])


def replay(path: str) -> int:
    with open(os.path.join(path, 'replay.json'), encoding='utf-8') as fh:
        body = json.load(fh)
    tmp = os.path.join(path, 'cases.json')
    with open(tmp, 'w', encoding='utf-8') as fh:
        json.dump([body['case']], fh)
    seen = set()
    for hashseed in range(8):
        res = run_child(tmp, hashseed, 'none', 1)
        for _pas, _idx, out in res.get('results', []):
            seen.add(json.dumps(out, sort_keys=True))
    print(f'{len(seen)} distinct outputs over 8 hash seeds')
    if len(seen) > 1:
        print(f'VIOLATION property={PROP} replay={path}')
        return common.EXIT_VIOLATED
    return common.EXIT_HELD
