"""C08 - output is a pure function of model and configuration.

Monitor: digest comparison across executions.  The same (model, configuration) cases are
built in child interpreters started with different PYTHONHASHSEED values and with the
configuration's name sets constructed in different insertion orders, several passes per
process; file names, sha256 of contents and the `hash` property must agree everywhere, and
`hash` must equal an MD5 of the UTF-8 contents recomputed with hashlib.
"""
import json
import os
import random
import subprocess
import sys

from .. import cfggen
from .. import common
from .. import model as M

PROP = 'C08'
CHILD = os.path.join(os.path.dirname(os.path.dirname(os.path.abspath(__file__))), 'c08_child.py')


def explicit_sets(enc) -> int:
    return max(len(sel) if isinstance(sel, list) else 0
               for side in ('provides', 'requires') for sel in enc[side].values())


FAMILIES = [
    ['qAbc', 'qabc', 'qABC', 'qaBc'],          # equal when case-folded (first letter kept: D12)
    ['p_a1', 'pa1', 'p_a_1', 'pa_1'],          # equal when underscores are dropped
    ['raa', 'rab', 'rac', 'rad'],              # equal length, equal prefix
    ['s1', 's01', 's001', 's0001'],            # equal as numbers
    ['tX', 'tXx', 'tXxx', 'tXxxx'],            # equal first two characters
]


def rename_to_family(rng: random.Random, gen, ent, info, index: int = 0):
    """Rename the exposed ports of the encapsulee to near-duplicate names: orderings that rely
    on a non-injective key (case-folded, stripped, by length ...) then fall back to set order."""
    comp = ent[1]
    fam = FAMILIES[index % len(FAMILIES)]
    for side, tag in (('provides', 'P'), ('requires', 'R')):
        ports = [p for p in comp.ports if p.direction == side and not p.injected]
        names = [n[0] + tag + n[1:] for n in fam]
        rng.shuffle(names)
        for port, name in zip(ports[:len(names)], names):
            port.name = name
    return cfggen.comp_info(gen, ent)


def gen_cases(rng: random.Random, count: int):
    cases = []
    tries = 0
    renamed = 0
    while len(cases) < count and tries < count * 200:
        tries += 1
        gen, ent, enc, info = cfggen.gen_shell_case(rng, hostile_text=True)
        if tries % 2 == 0 and not enc.get('multiclient') and \
                max(len(info['provides']), len(info['requires'])) >= 2:
            info = rename_to_family(rng, gen, ent, info, index=renamed)
            renamed += 1
            enc = dict(cfggen.rand_cfg(rng, gen, ent, multiclient=False, hostile_text=True),
                       requires={'sts': sorted(info['requires']), 'mts': 'NONE'}
                       if info['requires'] else {'sts': 'REMAINING', 'mts': 'NONE'},
                       provides={'sts': 'NONE', 'mts': sorted(info['provides'])}
                       if info['provides'] else {'sts': 'NONE', 'mts': 'ALL'})
        want = 2 if len(cases) < count * 0.8 else 0
        if explicit_sets(enc) < want:
            # force explicit name sets where the component has enough ports
            if len(info['requires']) >= 2:
                names = sorted(info['requires'])
                k = rng.randint(1, len(names))
                enc['requires'] = rng.choice([
                    {'sts': names[:k], 'mts': names[k:] or 'NONE'},
                    {'sts': 'REMAINING', 'mts': names}, {'sts': names, 'mts': 'NONE'}])
            if len(info['provides']) >= 2 and not enc['multiclient']:
                enc['provides'] = {'sts': sorted(info['provides']), 'mts': 'NONE'}
            if explicit_sets(enc) < 2:
                continue
        if len(cases) % 3 == 0:
            enc['copyright'] = rng.choice(['© é ü 漢字', 'naïve\n\u2028sep', 'Ünïcødé ✓'])
        cases.append({'doc': M.to_json(gen.model), 'cfg': enc})
    return cases


def run_child(path, hashseed, order_seed, passes=2):
    env = dict(os.environ, PYTHONHASHSEED=str(hashseed), PYTHONDONTWRITEBYTECODE='1')
    proc = subprocess.run([sys.executable, CHILD, path, str(order_seed), str(passes)],
                          env=env, capture_output=True, text=True, timeout=600)
    if proc.returncode != 0:
        return {'error': proc.stderr[-800:]}
    return json.loads(proc.stdout)


def _worker(arg):
    path, hashseed, order_seed = arg
    try:
        return run_child(path, hashseed, order_seed)
    except subprocess.TimeoutExpired:
        return {'error': 'timeout'}


def main(tier: str) -> int:
    run = common.Run(PROP, tier)
    n_cases = 12 if tier == 'quick' else 200
    seeds = [0, 1, 2, 3] if tier == 'quick' else list(range(48))
    cases = gen_cases(run.rng('cases'), n_cases)
    path = os.path.join(run.scratch(), 'cases.json')
    with open(path, 'w', encoding='utf-8') as fh:
        json.dump(cases, fh)
    jobs = [(path, hs, (hs * 7 + k) if k else 'none') for hs in seeds for k in range(2)]
    reference = {}
    run.require('executions_compared', 'md5_recomputed', 'cases_with_non_ascii_contents')
    for (_p, hashseed, order_seed), res in run.pmap(_worker, jobs):
        if 'error' in res:
            run.mark_inconclusive(f'child interpreter failed: {res["error"][-300:]}')
            continue
        run.count('child_interpreters')
        for pas, idx, out in res['results']:
            case = cases[idx]
            ident = {'hashseed': hashseed, 'order_seed': order_seed, 'pass': pas}
            if 'exc' in out:
                run.violation(f'valid-build-failed:{out["exc"]["type"]}', dict(out['exc'], **ident),
                              case)
                continue
            run.count('executions_compared')
            for name, _sha, prop_hash, md5 in out['files']:
                run.count('md5_recomputed')
                if prop_hash != md5:
                    run.violation('hash-is-not-md5-of-utf8-contents',
                                  dict(ident, file_kind=name.rsplit('_', 1)[-1]), case)
            key = [(n, s, h) for n, s, h, _m in out['files']]
            if idx not in reference:
                reference[idx] = (key, ident)
            elif reference[idx][0] != key:
                ref_key, ref_ident = reference[idx]
                differing = [a[0] for a, b in zip(ref_key, key) if a != b] or ['<file list>']
                kind = 'shell-header' if differing[0].endswith('.hh') and '_Dzn_' not in \
                    differing[0] and not differing[0].startswith('Dzn_') else differing[0][-12:]
                run.violation('output-differs-between-executions',
                              {'files': differing, 'file_kind': kind, 'a': ref_ident, 'b': ident,
                               'same_process': ref_ident['hashseed'] == hashseed and
                               ref_ident['order_seed'] == order_seed}, case,
                              klass='output-differs-between-executions:' + (
                                  'same-process' if ref_ident['hashseed'] == hashseed and
                                  ref_ident['order_seed'] == order_seed else 'across-processes'))
    for idx, case in enumerate(cases):
        run.case(common.digest(case), explicit_sets(case['cfg']) >= 2,
                 {'cfg': case['cfg']} if idx < 3 else None)
    run.extra['executions_per_case'] = len(jobs) * 2
    run.count('cases_with_non_ascii_contents', sum(1 for c in cases if not c['cfg']['copyright'].isascii()))
    run.extra['hashseeds'] = seeds
    return run.finish(
        rule='valid (model, configuration) cases built in child interpreters: PYTHONHASHSEED '
             'values x {sets built in written order, sets built in a permuted order} x 2 passes '
             'per process; all executions of a case must agree on file names, sha256(contents) '
             'and hash; evaluations = cases; non-trivial = a selection naming >=2 ports',
        assumptions=['equal inputs = same JSON document and same configuration encoding'])


def replay(path: str) -> int:
    with open(os.path.join(path, 'replay.json'), encoding='utf-8') as fh:
        body = json.load(fh)
    tmp = os.path.join(path, 'cases.json')
    with open(tmp, 'w', encoding='utf-8') as fh:
        json.dump([body['case']], fh)
    seen = set()
    for hashseed in range(8):
        res = run_child(tmp, hashseed, 'none', 1)
        for _pas, _idx, out in res.get('results', []):
            seen.add(json.dumps(out, sort_keys=True))
    print(f'{len(seen)} distinct outputs over 8 hash seeds')
    if len(seen) > 1:
        print(f'VIOLATION property={PROP} replay={path}')
        return common.EXIT_VIOLATED
    return common.EXIT_HELD
