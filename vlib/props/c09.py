"""C09 - facility ownership follows the configured origin.

Monitor: identity log.  The compiled shell is constructed once per locator shape
({dispatcher?} x {runtime?} x {other service?} = 8) and the mock component logs the locator it
was constructed with and every service in it (addresses); the harness logs the user's locator
before and after, the shell's address range, its Locator() accessor and every dispatcher that
tasks were posted to.  vlib.tracecheck.check_facilities compares addresses with the ownership
table of the origin; the Locator() accessor is probed at compile time (detection idiom).
"""
import itertools

from .. import common
from .. import model as M
from .. import cfggen
from .. import cxxlab
from .. import progrun
from .. import scripts
from .. import tracecheck
from .c01 import replay_program

PROP = 'C09'
SHAPES = [''.join(c) for k in range(4) for c in itertools.combinations('prx', k)]


def eval_program(arg) -> dict:
    seed, stream, scratch, tier = arg
    common.import_dznpy()
    prog, case, _rng = progrun.make_program(PROP, seed, stream, scratch, stream % 4 == 2,
                                            mc_shape=stream // 4, big=stream % 8 in (3, 4))
    # alternate the origin deterministically so that both are covered in every run
    # (odd streams run in a child interpreter with other surroundings - vlib.surroundings)
    prog.enc['origin'] = 'create' if stream % 4 in (0, 1) else 'import'
    if stream % 4 == 1:
        # dispatcher traffic must be visible for the import origin in every run
        prog.enc['requires'] = {'sts': 'NONE', 'mts': 'ALL'}
        if not prog.enc.get('multiclient'):
            prog.enc['provides'] = {'sts': 'NONE', 'mts': 'ALL'}
    if stream % 4 == 3 and not prog.enc.get('multiclient'):
        # ... and a shell without any rerouted port must still validate the facilities
        prog.enc['provides'] = {'sts': 'ALL', 'mts': 'NONE'}
        prog.enc['requires'] = {'sts': 'ALL', 'mts': 'NONE'}
    out = {'violations': [], 'counts': {}}
    if stream % 4 in (0, 1):
        # a rerouted port named like one of the shell's own parts: the facilities are the
        # shell's, whatever the ports are called
        mcp = (prog.enc.get('multiclient') or {}).get('port')
        cands = [p for p in prog.info['requires'] + prog.info['provides'] if p != mcp]
        word = ['locator', 'dispatcher', 'runtime', 'encapsulee'][(stream // 2) % 4]
        if cands and word not in prog.info['order']:
            prog.info = cfggen.rename_port(prog.gen, prog.ent, prog.enc, cands[0], word)
            case['ports'] = prog.info['ports']
            case['doc'] = M.to_json(prog.gen.model)
            prog.enc['requires'] = {'sts': 'NONE', 'mts': 'ALL'}
            if not prog.enc.get('multiclient'):
                prog.enc['provides'] = {'sts': 'NONE', 'mts': 'ALL'}
            out['counts']['programs_with_a_port_named_like_a_shell_part'] = 1
    if stream % 4 in (0, 2):
        # an event parameter named like a parameter of the shell's own constructor (`locator`
        # with imported, `prototypeLocator` with created facilities, `encapsuleeInstanceName`):
        # ordinary identifiers for a Dezyne model
        word = ['locator', 'prototypeLocator', 'encapsuleeInstanceName'][
            0 if prog.enc['origin'] == 'import' else 1 + (stream // 4) % 2]
        mcp = (prog.enc.get('multiclient') or {}).get('port')
        done = False
        for pname in prog.info['requires'] + prog.info['provides']:
            if pname == mcp or done:
                continue
            itf = prog.gen.interface_by_fqn(prog.info['ports'][pname]['itf'])
            for ev in itf.events:
                if ev.formals and all(f.name != word for f in ev.formals):
                    ev.formals[0].name = word
                    done = True
                    break
        if done:
            prog.enc['requires'] = {'sts': 'NONE', 'mts': 'ALL'}
            if not prog.enc.get('multiclient'):
                prog.enc['provides'] = {'sts': 'NONE', 'mts': 'ALL'}
            case['doc'] = M.to_json(prog.gen.model)
            out['counts']['programs_with_a_parameter_named_like_a_constructor_parameter'] = 1
    case['cfg'] = prog.enc
    prog.release = stream % 8 < 4      # both origins in both build configurations
    flavor = 'asan'
    if not progrun.build_or_report(prog, case, out, [flavor]):
        return progrun.finish_program(prog, out, case)
    meta = progrun.meta_of(prog)
    for shape in SHAPES:
        lines = scripts.preamble(prog, shape=shape or '-') + ['final', 'addresses']
        # a few events so that dispatcher traffic is visible
        for pname, ev, user_calls in prog.events()[:6]:
            if scripts.mc_info(prog) and scripts.mc_info(prog)['port'] == pname:
                continue
            key = f'{pname}/{ev.name}'
            lines += [f'call {key}' if user_calls else f'raise {key} pump', 'quiesce']
        script = '\n'.join(lines) + '\n'
        log = progrun.run_and_collect(prog, script, flavor, f'shape_{shape or "none"}', out, case)
        if log is None:
            # a construction that must fail leaves later operations without a shell: the
            # harness reports those as op_threw, never as a crash - a crash is a finding
            continue
        viols, counts = tracecheck.check_facilities(log, meta, shape)
        for key, val in counts.items():
            out['counts'][key] = out['counts'].get(key, 0) + val
        out['counts'][f'origin_{meta["origin"]}'] = out['counts'].get(f'origin_{meta["origin"]}', 0) + 1
        for mech, detail in viols:
            out['violations'].append({'mechanism': mech, 'detail': detail, 'case': case,
                                      'files': {'script.txt': script}})
    out['counts']['programs'] = 1
    return progrun.finish_program(prog, out, case)


def main(tier: str) -> int:
    if not cxxlab.tools_available():
        raise common.Inconclusive('g++ / clang++-14 not available')
    run = common.Run(PROP, tier)
    n = 8 if tier == 'quick' else 152
    run.require('programs_of_big_size', 'programs_with_a_parameter_named_like_a_constructor_parameter', 'constructions', 'constructed', 'refused', 'identity_comparisons', 'origin_create',
                'origin_import', 'posts_seen', 'programs_built_as_release',
                'programs_built_as_development', 'programs_with_a_port_named_like_a_shell_part')
    scratch = run.scratch()
    progrun.drive(run, eval_program, [(run.seed, i, scratch, tier) for i in range(n)])
    return run.finish(
        rule='random models and port configurations, origin alternating create/import, compiled '
             'with ASan+UBSan, constructed once per locator shape (all 8 subsets of {dispatcher, '
             'runtime, unrelated service}); evaluations = programs (8 constructions each)',
        assumptions=['addresses are compared, not names; the mock locator exposes its service '
                     'map to the instrumented mock component'])


def replay(path: str) -> int:
    return replay_program(PROP, eval_program, path)
