"""C02 - each port runs under exactly the runtime semantics it was configured with.

Monitor: ordering + thread-context log of the compiled shell under ASan/UBSan, decided on
sequence numbers and the dispatcher flag (vlib.tracecheck.check_semantics): MTS provides
in-events execute in the dispatcher and return after execution; MTS requires out-events are
called while the pump's gate is closed - they must return at once, execute only after the gate
opens, with their in-arguments intact although the caller clobbered its locals; STS events
never touch the dispatcher and the accessor hands out the component's own port object.
Accessor types are static_asserts in the harness.
"""
from .. import common
from .. import cxxlab
from .. import progrun
from .. import scripts
from .. import tracecheck
from .c01 import replay_program

PROP = 'C02'


def eval_program(arg) -> dict:
    seed, stream, scratch, tier = arg
    common.import_dznpy()
    want_mc = stream % 4 == 3
    need_two = stream % 3 == 2
    # the all-MTS-requires programs queue at least one out-event whose in-argument is declared
    # as a C++ reference: the closure must hold a copy, not the caller's object
    need_ref = stream % 3 == 0

    two_mts_provides = stream % 6 == 5 and not want_mc

    def accept(info):
        if two_mts_provides and \
                sum(1 for p in info['provides'] if info['ports'][p]['n_in']) < 2:
            return False        # two rerouted provides ports that both have in-events
        if need_two:
            return len(info['requires']) >= 2
        if need_ref:
            return any(info['ports'][p]['n_out_ref_formals'] for p in info['requires'])
        return True
    prog, case, _rng = progrun.make_program(
        PROP, seed, stream, scratch, want_mc, mc_shape=stream // 4, accept=accept,
        # where the multi-client port stands among (at least three) provides ports is cycled
        mc_position=['middle', 'first', 'last'][(stream // 4) % 3] if want_mc else None,
        ref_externs=0.8 if need_ref else None, big=stream % 9 == 6)
    if need_two:
        # one semantics by explicit names, the other by 'remaining': the warm-up build spells the
        # same assignment with two explicit sets from shared PortSelect objects
        req = sorted(prog.info['requires'])
        half = req[:max(1, len(req) // 2)]
        prog.enc['requires'] = {'sts': 'REMAINING', 'mts': half} if stream % 2 else \
            {'sts': half, 'mts': 'REMAINING'}
    if two_mts_provides:
        # several plain provides ports rerouted through the dispatcher in one shell
        prog.enc['provides'] = {'sts': 'NONE', 'mts': 'ALL'}
    # cover every semantics/direction combination in every run, whatever the random draw
    if stream % 3 == 0:
        prog.enc['requires'] = {'sts': 'NONE', 'mts': 'ALL'}
    elif stream % 3 == 1 and not prog.enc.get('multiclient'):
        prog.enc['provides'] = {'sts': 'ALL', 'mts': 'NONE'}
        prog.enc['requires'] = {'sts': 'REMAINING', 'mts': 'NONE'}
    if prog.enc.get('big') and not prog.enc.get('multiclient'):
        prog.enc['provides'] = {'sts': 'NONE', 'mts': 'ALL'}
    case['cfg'] = prog.enc
    out = {'violations': [], 'counts': {}}
    if need_ref:
        out['counts']['programs_queueing_reference_typed_arguments'] = 1
    if two_mts_provides:
        out['counts']['programs_with_several_mts_provides_ports'] = 1
    flavor = 'asan'
    if not progrun.build_or_report(prog, case, out, [flavor]):
        return progrun.finish_program(prog, out, case)
    script = scripts.routing_script(prog, rounds=2, gate=True)
    meta = progrun.meta_of(prog)
    log = progrun.run_and_collect(prog, script, flavor, 'semantics', out, case)
    if log is not None:
        viols, counts = tracecheck.check_semantics(log, meta)
        for key, val in counts.items():
            out['counts'][key] = out['counts'].get(key, 0) + val
        for mech, detail in viols:
            out['violations'].append({'mechanism': mech, 'detail': detail, 'case': case,
                                      'files': {'script.txt': script}})
        # "... and hand back the reply": what the blocked caller gets back from an MTS provides
        # in-event - reply value, out and inout arguments - is what the dispatcher-side run
        # produced
        rviols, rcounts = tracecheck.check_routing(log, meta)
        out['counts']['replies_handed_back_compared'] = \
            out['counts'].get('replies_handed_back_compared', 0) + rcounts.get('returns_compared', 0)
        for mech, detail in rviols:
            if mech in ('out-values-not-carried-back', 'reply-not-carried-back',
                        'call-did-not-return') and detail.get('semantics') == 'MTS':
                out['violations'].append({'mechanism': 'mts-' + mech, 'detail': detail,
                                          'case': case, 'files': {'script.txt': script}})
    out['counts']['programs'] = 1
    out['counts']['static_asserts_on_accessor_types'] = len(prog.mapping)
    sems = set(prog.mapping.values())
    return progrun.finish_program(prog, out, case, nontrivial=len(sems) == 2 or len(prog.mapping) >= 2)


def main(tier: str) -> int:
    if not cxxlab.tools_available():
        raise common.Inconclusive('g++ / clang++-14 not available')
    run = common.Run(PROP, tier)
    n = 9 if tier == 'quick' else 400
    run.require('programs_of_big_size', 'mts_provides_in', 'mts_requires_out', 'sts_events', 'identity_checks',
                'gate_tests', 'programs', 'static_asserts_on_accessor_types',
                'programs_queueing_reference_typed_arguments',
                'programs_with_several_mts_provides_ports', 'replies_handed_back_compared')
    scratch = run.scratch()
    progrun.drive(run, eval_program, [(run.seed, i, scratch, tier) for i in range(n)])
    return run.finish(
        rule='random models x every kind of STS/MTS assignment the configuration language '
             'expresses (presets, explicit sets, remaining/all/none; both origins; every fourth '
             'with a multi-client port), compiled with clang++ -fsanitize=address,undefined; '
             'every event of every exposed port driven twice, MTS requires out-events under a '
             'closed dispatcher gate; evaluations = compiled programs; non-trivial = both '
             'semantics present or >=2 exposed ports',
        assumptions=['mock Dezyne runtime (gate, dispatcher flag) is the trusted base',
                     'ASan: detect_stack_use_after_return=1, halt_on_error=1'])


def replay(path: str) -> int:
    return replay_program(PROP, eval_program, path)
