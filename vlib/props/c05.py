"""C05 - parsing preserves every declaration of the Dezyne JSON AST with correct names.

Monitor: reference-model comparison.  A model is generated in the independent IR, projected
to JSON, parsed by the real DznJsonAst and re-serialised by an unparser that reads public
dataclass fields only; the result must equal the IR's own expectation, container by container,
entry by entry, in source order.
"""
import json
import os
import random
import tempfile

from .. import caller
from .. import common
from .. import shellbuild
from .. import model as M
from ..modelgen import GenOpts, ModelGen

PROP = 'C05'


def make_opts(rng: random.Random) -> GenOpts:
    return GenOpts(
        max_ns_depth=rng.choice([0, 1, 2, 3, 4, 6]),
        max_ns_children=rng.choice([1, 2, 3]),
        multi_id_ns=rng.choice([0.0, 0.3, 0.6]),
        reopen_ns=rng.choice([0.0, 0.3, 0.6]),
        reuse_names=rng.choice([0.0, 0.4, 0.8]),
        n_externs=(0, 4), n_enums=(0, 3), n_interfaces=(0, 4), n_events=(0, 5),
        n_formals=(0, 4), n_components=(0, 3), n_systems=(0, 2), n_foreigns=(0, 2),
        n_subints=(0, 3), n_provides=(0, 3), n_requires=(0, 3), n_injected=(0, 2),
        noise=rng.choice([0.0, 0.7, 1.0]), global_component=0.3,
        name_families=rng.choice([0.15, 0.4, 0.7]))


def build_case(seed: int, stream: int) -> dict:
    rng = random.Random(f'{PROP}:{seed}:{stream}')
    opts = make_opts(rng)
    if stream % 10 == 9:
        # namespaces nested far deeper than the generator's own trees: 17, 33, 65, 80 levels
        opts.chain_depth = [17, 33, 65, 80, 64][(stream // 10) % 5]
        opts.max_ns_depth, opts.noise, opts.reuse_names = 1, 0.0, 0.0
    gen = ModelGen(rng, opts).generate()
    if stream % 10 == 3:
        # hundreds of empty namespaces next to the declarations (`namespace X {}` - what is left
        # of a module whose contents moved, a placeholder, a generated skeleton)
        count = [60, 600, 700][(stream // 10) % 3]
        gen.root.pieces[0].elements.extend(M.Namespace([f'QZempty{k}'], []) for k in range(count))
    if rng.random() < 0.3:
        gen.model.comment = rng.choice(['// c', '', 'multi\nline'])
    doc = M.to_json(gen.model, decorate=rng.random() < 0.5, rng=rng)
    return {'doc': doc, 'expect': M.expectations(gen.model),
            'route': rng.choice(['str', 'bytes', 'file', 'reused-after-refusal']),
            # long use: one parser object asked for its document hundreds of times
            'repeat': 700 if stream % 10 == 7 and len(json.dumps(doc)) < 6000 else 0,
            'stream': stream}


def parse(text: str, route):
    """Parse through one of the three entry routes of DznJsonAst."""
    from dznpy.json_ast import DznJsonAst  # pylint: disable=import-outside-toplevel
    verbose = common.verbose_for(text)
    if route == 'reused-after-refusal':
        return shellbuild.parse_after_refusal(text, verbose)
    if route == 'bytes':
        return DznJsonAst(text.encode('utf-8'), verbose).process()
    if route == 'file':
        with tempfile.NamedTemporaryFile('w', suffix='.json', delete=False) as fh:
            fh.write(text)
        try:
            return DznJsonAst(verbose=verbose).load_file(fh.name).process()
        finally:
            os.unlink(fh.name)
    return DznJsonAst(text, verbose=verbose).process()


def eval_case(case: dict) -> dict:
    common.import_dznpy()
    if 'doc' not in case:
        case = build_case(case['seed'], case['stream'])
    doc, expect = case['doc'], case['expect']
    text = json.dumps(doc)
    res = {'violations': [], 'counts': {}}
    try:
        with common.quiet():
            fc = parse(text, case.get('route'))
            if case.get('repeat'):
                from dznpy.json_ast import DznJsonAst  # pylint: disable=import-outside-toplevel
                parser = DznJsonAst(text)
                for _ in range(case['repeat']):
                    fc = parser.process()
                res['counts']['documents_processed_hundreds_of_times_by_one_parser'] = 1
        got = M.canon_filecontents(fc)
    except Exception as exc:  # pylint: disable=broad-except
        info = common.classify_exception(exc)
        res['violations'].append({'mechanism': f'well-formed-document-refused:{info["type"]}',
                                  'detail': info, 'case': case})
        got = None
    if got is not None:
        diff = common.first_diff(expect, got)
        if diff:
            mech = f'parse-differs:{diff["kind"]}:{common.strip_indices(diff["path"])}'
            res['violations'].append({'mechanism': mech, 'detail': diff, 'case': case})
        res['counts']['entries_compared'] = sum(len(v) for v in expect.values())
        # the caller logs what it was handed and derives names from it (vlib.caller); what the
        # parse result holds is still what was written, in source order
        try:
            with common.quiet():
                caller.after_parse(fc)
            again = M.canon_filecontents(fc)
        except Exception as exc:  # pylint: disable=broad-except
            again = {'exception': common.classify_exception(exc)}
        res['counts']['results_compared_again_after_use_by_the_caller'] = 1
        diff = common.first_diff(got, again)
        if diff:
            mech = f'parse-result-changes-under-use:{diff["kind"]}:' \
                   f'{common.strip_indices(diff["path"])}'
            res['violations'].append({'mechanism': mech, 'detail': diff, 'case': case})
        for kind, entries in expect.items():
            if entries:
                res['counts'][f'docs_with_{kind}'] = 1
    kinds = sum(1 for v in expect.values() if v)
    depth = max([len(e['ns']) for v in expect.values() for e in v if 'ns' in e] or [0])
    res['counts'][f'ns_depth_{min(depth, 6)}'] = 1
    for mark in (16, 32, 64):
        if depth > mark:
            res['counts'][f'documents_nested_deeper_than_{mark}_namespaces'] = 1
    res['nontrivial'] = depth >= 1 and kinds >= 3
    res['digest'] = common.digest(doc)
    res['sample'] = {'kinds_present': [k for k, v in expect.items() if v], 'ns_depth': depth,
                     'fqns': ['.'.join(e['fqn']) for v in expect.values() for e in v
                              if 'fqn' in e][:12]}
    return res


def _worker(arg):
    seed, stream = arg
    return eval_case(build_case(seed, stream))


def main(tier: str) -> int:
    run = common.Run(PROP, tier)
    n = 300 if tier == 'quick' else 100000
    run.require('entries_compared', 'results_compared_again_after_use_by_the_caller',
                'documents_nested_deeper_than_16_namespaces', 'documents_nested_deeper_than_64_namespaces',
                'documents_processed_hundreds_of_times_by_one_parser')
    for item, res in run.pmap(_worker, [(run.seed, i) for i in range(n)], chunksize=25):
        common.absorb(run, {'seed': item[0], 'stream': item[1]}, res)
    return run.finish(
        rule='random IR models (namespace depth 0-6, multi-identifier and re-opened namespaces, '
             'all nine declaration kinds in any order, reused simple names, unknown classes and '
             'non-dict elements as noise) -> JSON -> DznJsonAst.process() -> field-wise unparser; '
             'distinct = digest of the JSON document; non-trivial = at least one namespace level '
             'and at least three non-empty containers',
        assumptions=['the IR->JSON projection follows the shapes in '
                     'test/unit_tests/testdata_json_ast.py (no real Dezyne is installed)'])


def replay(path: str) -> int:
    return common.generic_replay(PROP, eval_case, path)
