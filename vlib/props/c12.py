"""C12 - building never alters its inputs and is independent of earlier builds.

Monitors: (1) deep structural snapshots of the parsed model and of the Configuration object
taken before and after every build of a history; (2) the files of every build of the history
compared with the same (model, configuration) built alone in a fresh interpreter; (3) support
files of a result compared with create_header(prefix) called stand-alone.
"""
import copy
import dataclasses
import enum
import hashlib
import json
import shutil
import tempfile
import os
import random
import subprocess
import sys

from .. import cfggen
from .. import common
from .. import model as M
from .. import shellbuild
from . import c13
from ..modelgen import fresh

PROP = 'C12'
CHILD = os.path.join(os.path.dirname(os.path.dirname(os.path.abspath(__file__))), 'c08_child.py')


def deep_canon(obj, depth=0):
    """Nested plain structure of any dznpy object graph (public and private attributes)."""
    if depth > 60:
        return '<deep>'
    if obj is None or isinstance(obj, (bool, int, float, str)):
        return obj
    if isinstance(obj, enum.Enum):
        return f'{type(obj).__name__}.{obj.name}'
    if isinstance(obj, (list, tuple)):
        return [deep_canon(x, depth + 1) for x in obj]
    if isinstance(obj, (set, frozenset)):
        return {'<set>': sorted((deep_canon(x, depth + 1) for x in obj), key=repr)}
    if isinstance(obj, dict):
        return {str(k): deep_canon(v, depth + 1) for k, v in obj.items()}
    if dataclasses.is_dataclass(obj) and not isinstance(obj, type):
        out = {'<type>': type(obj).__name__}
        for fld in dataclasses.fields(obj):
            out[fld.name] = deep_canon(getattr(obj, fld.name), depth + 1)
        return out
    if hasattr(obj, '__dict__'):
        return {'<type>': type(obj).__name__,
                **{k: deep_canon(v, depth + 1) for k, v in vars(obj).items()}}
    return repr(obj)


def build_history(rng: random.Random):
    """A history: documents, configuration encodings and steps."""
    n_models = rng.randint(1, 3)
    models = []
    prev = None
    for _ in range(n_models):
        if prev is not None and rng.random() < 0.5:
            # an edited version of the previous model: same names, one port more or less
            gen = copy.deepcopy(prev[0])
            ent = next(e for e in gen.components if e[0] == prev[1][0])
            comp = ent[1]
            if comp.ports and rng.random() < 0.5:
                comp.ports.pop(rng.randrange(len(comp.ports)))
            elif comp.ports:
                src = rng.choice(comp.ports)
                taken = {p.name[0].upper() + p.name[1:] for p in comp.ports}
                comp.ports.append(M.Port(fresh(rng, taken, 'snake', casefold_first=True),
                                         M.Ref(list(src.type.ids), src.type.target),
                                         src.direction, src.injected))
            enc = cfggen.rand_cfg(rng, gen, ent, multiclient=False)
            info = cfggen.comp_info(gen, ent)
        else:
            gen, ent, enc, info = cfggen.gen_shell_case(rng)
        prev = (gen, ent)
        cfgs = [enc]
        for _k in range(rng.randint(0, 2)):
            cfgs.append(cfggen.rand_cfg(rng, gen, ent))
        faults = c13.cfg_faults(rng, gen, ent, enc, info)
        rng.shuffle(faults)
        cfgs.extend(f[1] for f in faults[:rng.randint(1, 3)])
        # same configuration, other prefix
        cfgs.append(dict(enc, prefix=['QZAlt', 'QZNs'] if enc.get('prefix') is None else None))
        # two prefixes that name different namespaces but the same files (A.B / A_B)
        cfgs.append(dict(enc, prefix=['QZTwin', 'QZNs']))
        cfgs.append(dict(enc, prefix=['QZTwin_QZNs']))
        named_injected = None
        if info['injected'] and not enc.get('multiclient'):
            # a configuration that names an injected port among its explicit requires names
            # (whatever the library makes of it: the configuration stays what it was)
            named_injected = len(cfgs)
            cfgs.append(dict(enc, requires={'sts': sorted(info['requires'] + info['injected']),
                                            'mts': 'NONE'}))
            cfgs.append(dict(enc, requires={'sts': sorted(info['injected']), 'mts': 'REMAINING'}))
        # sizes beyond the usual: two different long model file names (97+ characters), long
        # prefixes that differ in their last identifier only, long one-line texts
        for _k in range(2):
            big = dict(enc)
            cfggen.enlarge(rng, big)
            cfgs.append(big)
        models.append({'doc': M.to_json(gen.model), 'cfgs': cfgs, 'named_injected': named_injected})
    steps = []
    for m, model in enumerate(models):
        if model['named_injected'] is not None:
            for k in (0, 1, 0):
                steps.append({'model': m, 'cfg': model['named_injected'] + k, 'reuse_builder': True,
                              'reuse_cfg_object': k == 0, 'edit_cfg_object': False})
        # both long-named configurations of every model are built, in this order
        steps.append({'model': m, 'cfg': len(model['cfgs']) - 2, 'reuse_builder': bool(m % 2),
                      'reuse_cfg_object': False, 'edit_cfg_object': False})
        steps.append({'model': m, 'cfg': len(model['cfgs']) - 1, 'reuse_builder': bool(m % 2),
                      'reuse_cfg_object': False, 'edit_cfg_object': False})
    for _ in range(rng.randint(3, 12)):
        m = rng.randrange(n_models)
        steps.append({'model': m, 'cfg': rng.randrange(len(models[m]['cfgs'])),
                      'reuse_builder': rng.random() < 0.5,
                      'reuse_cfg_object': rng.random() < 0.4,
                      # the user edits the Configuration object of an earlier build in place
                      'edit_cfg_object': rng.random() < 0.3})
    return {'models': models, 'steps': steps}


def reference(doc, cfg):
    """Files of (doc, cfg) built alone in a fresh interpreter."""
    tmp = tempfile.mkdtemp(prefix='dznpy-verif-c12-')
    try:
        path = os.path.join(tmp, 'case.json')
        with open(path, 'w', encoding='utf-8') as fh:
            json.dump([{'doc': doc, 'cfg': cfg}], fh)
        env = dict(os.environ, PYTHONHASHSEED='0', PYTHONDONTWRITEBYTECODE='1')
        proc = subprocess.run([sys.executable, CHILD, path, 'none', '1'], env=env,
                              capture_output=True, text=True, timeout=300)
        if proc.returncode != 0:
            return {'error': proc.stderr[-500:]}
        return json.loads(proc.stdout)['results'][0][2]
    finally:
        shutil.rmtree(tmp, ignore_errors=True)


def eval_case(history: dict) -> dict:
    common.import_dznpy()
    from dznpy.adv_shell import Builder  # pylint: disable=import-outside-toplevel
    from dznpy.support_files import strict_port, ilog, misc_utils, meta_helpers, \
        multi_client_selector, mutex_wrapped  # pylint: disable=import-outside-toplevel
    from dznpy.scoping import NamespaceIds  # pylint: disable=import-outside-toplevel
    out = {'violations': [], 'counts': {}}
    cnt = out['counts']

    def viol(mech, step=None, **detail):
        detail['step'] = step
        out['violations'].append({'mechanism': mech, 'detail': detail, 'case': history})

    fcs = [shellbuild.parse_doc(m['doc']) for m in history['models']]
    standalone = {}
    shared_builder = Builder()
    cfg_objects = {}
    last_cfg = {}
    failed_before = set()
    reused_after_failure = False
    results = []
    for idx, step in enumerate(history['steps']):
        m = step['model']
        enc = history['models'][m]['cfgs'][step['cfg']]
        key = (m, step['cfg'])
        try:
            if step.get('edit_cfg_object') and m in last_cfg:
                cfg = last_cfg[m]
                fresh = shellbuild.make_configuration(enc, fcs[m])
                for attr, val in vars(fresh).items():
                    setattr(cfg, attr, val)
                for old_key in [k for k, v in cfg_objects.items() if v is cfg]:
                    del cfg_objects[old_key]     # the object now stands for this configuration
                cfg_objects[key] = cfg
                cnt['configuration_objects_edited_in_place'] = \
                    cnt.get('configuration_objects_edited_in_place', 0) + 1
            elif step['reuse_cfg_object'] and key in cfg_objects:
                cfg = cfg_objects[key]
            else:
                cfg = shellbuild.make_configuration(enc, fcs[m])
                cfg_objects[key] = cfg
        except Exception as exc:  # pylint: disable=broad-except
            results.append({'exc': common.classify_exception(exc)})
            failed_before.add(m)
            cnt['failed_builds'] = cnt.get('failed_builds', 0) + 1
            continue
        last_cfg[m] = cfg
        if m in failed_before:
            reused_after_failure = True
        before_model = deep_canon(fcs[m])
        before_cfg = deep_canon({k: v for k, v in vars(cfg).items() if k != 'ast_fc'})
        builder = shared_builder if step['reuse_builder'] else Builder()
        try:
            with common.quiet():
                res = builder.build(cfg)
            files = [(gc.filename, gc.contents) for gc in res.files]
            results.append({'files': [[n, hashlib.sha256(c.encode('utf-8')).hexdigest()]
                                      for n, c in files]})
            cnt['successful_builds'] = cnt.get('successful_builds', 0) + 1
            # support files vs stand-alone generation with the same prefix
            prefix = enc.get('prefix')
            pkey = tuple(prefix) if prefix else None
            if pkey not in standalone:
                ns = None if prefix is None else NamespaceIds(list(prefix))
                standalone[pkey] = {gc.filename: gc for gc in (
                    mod.create_header(ns) for mod in (strict_port, ilog, misc_utils,
                                                      meta_helpers, multi_client_selector,
                                                      mutex_wrapped))}
            own = {shellbuild.shell_name(enc) + '.hh', shellbuild.shell_name(enc) + '.cc'}
            for gc in [g for g in res.files if g.filename not in own]:
                cnt['support_files_compared'] = cnt.get('support_files_compared', 0) + 1
                alone = standalone[pkey].get(gc.filename)
                if alone is None or alone.contents != gc.contents or alone != gc:
                    viol('support-file-differs-from-standalone', idx,
                         file_kind=gc.filename.rsplit('_', 1)[-1])
        except Exception as exc:  # pylint: disable=broad-except
            results.append({'exc': common.classify_exception(exc)})
            failed_before.add(m)
            cnt['failed_builds'] = cnt.get('failed_builds', 0) + 1
        cnt['snapshots_compared'] = cnt.get('snapshots_compared', 0) + 2
        diff = common.first_diff(before_model, deep_canon(fcs[m]))
        if diff:
            viol('model-mutated-by-build:' + common.strip_indices(diff['path']), idx, diff=diff,
                 build_failed='exc' in results[-1])
        diff = common.first_diff(before_cfg,
                                 deep_canon({k: v for k, v in vars(cfg).items() if k != 'ast_fc'}))
        if diff:
            viol('configuration-mutated-by-build:' + common.strip_indices(diff['path']), idx,
                 diff=diff)
    # history independence: compare with a fresh interpreter per (model, configuration)
    refs = {}
    for idx, (step, res) in enumerate(zip(history['steps'], results)):
        key = (step['model'], step['cfg'])
        if key not in refs:
            refs[key] = reference(history['models'][key[0]]['doc'],
                                  history['models'][key[0]]['cfgs'][key[1]])
            cnt['fresh_process_references'] = cnt.get('fresh_process_references', 0) + 1
        ref = refs[key]
        if 'error' in ref:
            out['harness_error'] = ref['error']
            continue
        cnt['builds_compared_with_fresh_process'] = \
            cnt.get('builds_compared_with_fresh_process', 0) + 1
        if 'files' in res and 'files' in ref:
            want = [[n, s] for n, s, _h, _m in ref['files']]
            if res['files'] != want:
                differing = [a[0] for a, b in zip(res['files'], want) if a != b] or ['<list>']
                viol('output-depends-on-history', idx, files=differing,
                     position_in_history=idx, reuse_builder=step['reuse_builder'])
        elif ('files' in res) != ('files' in ref):
            viol('outcome-depends-on-history', idx, in_history='files' in res,
                 alone='files' in ref, exc=res.get('exc') or ref.get('exc'))
        elif res['exc']['type'] != ref['exc']['type']:
            viol('error-depends-on-history', idx, in_history=res['exc'], alone=ref['exc'])
    out['digest'] = common.digest(history)
    out['nontrivial'] = reused_after_failure
    out['sample'] = {'models': len(history['models']), 'steps': history['steps'],
                     'cfgs_of_model0': history['models'][0]['cfgs'][:2]}
    return out


def eval_recycle(arg) -> dict:
    """Address-recycling stress: parse, build, forget a model, then build a different revision of
    it (same names, other ports) that is made to live at the very address of the forgotten one.
    Anything that remembers inputs by identity (id()) instead of by value shows up as a build
    that differs from the fresh-process reference."""
    import gc  # pylint: disable=import-outside-toplevel
    seed, stream = arg
    common.import_dznpy()
    rng = random.Random(f'{PROP}:recycle:{seed}:{stream}')
    out = {'violations': [], 'counts': {}}
    cnt = out['counts']
    gen, ent, _enc, _info = cfggen.gen_shell_case(rng, want_multiclient=False)
    revisions = []
    for rev in range(3):
        g = copy.deepcopy(gen)
        e = next(x for x in g.components if x[0] == ent[0])
        comp = e[1]
        for _ in range(rev):
            if comp.ports and rng.random() < 0.5:
                comp.ports.pop(rng.randrange(len(comp.ports)))
            elif comp.ports:
                src = rng.choice(comp.ports)
                taken = {p.name[0].upper() + p.name[1:] for p in comp.ports} | {e[0][-1]}
                comp.ports.append(M.Port(fresh(rng, taken, 'snake', casefold_first=True),
                                         M.Ref(list(src.type.ids), src.type.target),
                                         src.direction, src.injected))
        enc = dict(cfggen.rand_cfg(rng, g, e, multiclient=False),
                   provides={'sts': 'NONE', 'mts': 'ALL'}, requires={'sts': 'REMAINING', 'mts': 'NONE'})
        doc = M.to_json(g.model)
        ref = reference(doc, enc)
        if 'files' not in ref:
            out['harness_error'] = str(ref)
            return out
        revisions.append({'doc': doc, 'cfg': enc, 'want': [[n, s_] for n, s_, _h, _m in ref['files']]})
    distinct = len({json.dumps(r['want']) for r in revisions})
    history = {'kind': 'recycle', 'revisions': [{'doc': r['doc'], 'cfg': r['cfg']} for r in revisions]}
    for _it in range(40):
        r_old, r_new = rng.sample(range(3), 2)
        old = shellbuild.parse_doc(revisions[r_old]['doc'])
        shellbuild.build_files(revisions[r_old]['cfg'], old)
        old_id = id(old)
        del old
        gc.collect()
        new = shellbuild.parse_doc(revisions[r_new]['doc'])
        keep, target = [], new
        for _k in range(4000):
            clone = copy.copy(new)
            if id(clone) == old_id:
                target = clone
                cnt['recycled_addresses'] = cnt.get('recycled_addresses', 0) + 1
                break
            keep.append(clone)
        del keep
        files = shellbuild.build_files(revisions[r_new]['cfg'], target)
        got = [[n, hashlib.sha256(c.encode('utf-8')).hexdigest()] for n, c, _h in files]
        cnt['parse_build_forget_rounds'] = cnt.get('parse_build_forget_rounds', 0) + 1
        if got != revisions[r_new]['want']:
            differing = [a[0] for a, b in zip(got, revisions[r_new]['want']) if a != b]
            out['violations'].append({
                'mechanism': 'output-depends-on-history',
                'detail': {'files': differing, 'after': 'parse-build-forget of another revision',
                           'address_recycled': target is not new},
                'case': history, 'klass': 'output-depends-on-history:forgotten-model'})
            break
    out['digest'] = common.digest(history)
    out['nontrivial'] = distinct >= 2
    out['sample'] = {'kind': 'recycle', 'revisions': 3, 'distinct_outputs': distinct}
    return out


def _worker(arg):
    seed, stream = arg
    rng = random.Random(f'{PROP}:{seed}:{stream}')
    return eval_case(build_history(rng))


def main(tier: str) -> int:
    run = common.Run(PROP, tier)
    n = 30 if tier == 'quick' else 3000
    run.require('snapshots_compared', 'builds_compared_with_fresh_process',
                'configuration_objects_edited_in_place',
                'support_files_compared', 'failed_builds', 'successful_builds')
    for item, res in run.pmap(_worker, [(run.seed, i) for i in range(n)], timeout=1800):
        common.absorb(run, {'seed': item[0], 'stream': item[1]}, res)
    n_rec = 8 if tier == 'quick' else 400
    run.require('parse_build_forget_rounds', 'recycled_addresses')
    for item, res in run.pmap(eval_recycle, [(run.seed, i) for i in range(n_rec)], timeout=1800):
        common.absorb(run, {'seed': item[0], 'stream': item[1], 'kind': 'recycle'}, res)
    return run.finish(
        rule='histories of 3-12 builds over 1-3 shared parsed models, mixing valid and invalid '
             'configurations, other namespace prefixes, reused Builder instances and reused '
             'Configuration objects, plus parse-build-forget rounds in which the next revision of '
             'a model is placed at the recycled address of the forgotten one; evaluations = '
             'histories; non-trivial = a parsed model is '
             'built again after a build on it failed; distinct = digest of the history',
        assumptions=['"observably unchanged" is decided by deep snapshots before/after each '
                     'build (all dataclass fields and instance attributes), not by write logs',
                     'reference = the same (document, configuration) built alone in a fresh '
                     'child interpreter'])


def replay(path: str) -> int:
    return common.generic_replay(PROP, eval_case, path)
