"""C14 - name lookup returns exactly the scope chain's declarations; namespace identifiers are
always valid and their notations convert losslessly.

Monitors (run-time, result versus independent oracle):

* lookup: a declaration set over nested namespaces is born in the independent IR, projected to
  JSON and parsed by the real DznJsonAst.  Every declaration carries a unique tag in a public
  payload field, so returned objects are recognised without trusting their fqn or container
  order.  `find_fqn`, `find_any` and `scope_resolution_order` are run on every query and
  compared with the set comprehensions of vlib.model (multiset for the finders, list for the
  resolution order).
* identifiers/notations: a validator written character by character (no regex) decides which
  strings are identifiers; NamespaceIds / namespaceids_t / ns_ids_t / the parser must accept
  exactly those, every value handed out must consist of identifiers only, list / dotted / '::'
  notations must round-trip, and `+`, `+=`, sum_namespaceids_items, NamespaceTree.fqn and
  fqn_member_name must concatenate without touching their inputs.
"""
import itertools
import json
import random
import signal
import zlib

from .. import common
from .. import shellbuild
from .. import model as M

PROP = 'C14'
ALPHABET = ['a', 'b', 'c']
BEYOND_ALPHABET = ['a', 'ab', 'a_b', 'b', 'E_1']   # textual prefixes of one another on purpose
HOSTILE = ['a', 'Z', '_', '7', '.', ':', ' ', '\n', 'é', '٣', '-', '\t']
def _lookalikes() -> list:
    """Non-ASCII characters that some text operation turns into an ASCII letter or digit: case
    folding (U+0130, U+0131, U+017F, U+212A), compatibility normalisation (full-width forms,
    ligatures, circled letters) - what a validity test written with a case-insensitive or
    normalising shortcut lets through."""
    import unicodedata  # pylint: disable=import-outside-toplevel
    out = []
    for code in range(0x80, 0x3000):
        ch = chr(code)
        forms = {ch.lower(), ch.upper(), ch.casefold(), unicodedata.normalize('NFKC', ch),
                 unicodedata.normalize('NFKD', ch)}
        if any(f and f.isascii() and f.isalnum() for f in forms):
            out.append(ch)
    return out


LOOKALIKES = _lookalikes()
EXTRA_HOSTILE = ['\r', '\x00', '\u00aa', '\uff21', '\u200b', '\u2167', '$', '0'] + \
    ['\u0130', '\u0131', '\u017f', '\u212a']
ID_CHARS = ['a', 'Z', '_', '7']
LAYOUTS = ['nested-merged', 'nested-reopened', 'multi-id', 'mixed']
MAX_WITNESSES = 3          # witness records per mechanism and case
CASE_CPU_SECONDS = 6.0     # a case needs well under a second; a call that spins is a witness
BAD_ARGUMENTS = [None, 1, 3.14, True, ['a', 1], [None], [['a']], ('a',), {'a'}, {'a': 1}, b'a']


# ---------------------------------------------------------------------------------------------
# oracle pieces that are independent of dznpy
# ---------------------------------------------------------------------------------------------

def is_identifier(text) -> bool:
    """[A-Za-z_][A-Za-z0-9_]* decided character by character, ASCII only."""
    if not isinstance(text, str) or len(text) == 0:
        return False
    for pos, char in enumerate(text):
        letter = ('a' <= char <= 'z') or ('A' <= char <= 'Z') or char == '_'
        digit = '0' <= char <= '9'
        if pos == 0 and not letter:
            return False
        if not (letter or digit):
            return False
    return True


def offence(text: str) -> str:
    """Why a string is no identifier (a fact for the witness, not part of the verdict)."""
    if text == '':
        return 'empty'
    if '0' <= text[0] <= '9':
        return 'leading-digit'
    for pos, char in enumerate(text):
        if is_identifier('a' + char):
            continue
        if char == '\n' and pos == len(text) - 1:
            return 'trailing-newline'
        if char in ' \t\n\r':
            return 'whitespace'
        if char in '.:':
            return 'separator'
        if ord(char) > 127:
            what = 'digit' if char.isdigit() else 'letter' if char.isalpha() else 'other'
            return f'non-ascii-{what}'
        return 'ascii-punctuation-or-control'
    return 'none'


def split_on(text: str, sep: str) -> list:
    """Hand-written splitter (leftmost separator first, empty parts kept)."""
    parts, cur, pos = [], '', 0
    while pos < len(text):
        if text[pos:pos + len(sep)] == sep:
            parts.append(cur)
            cur = ''
            pos += len(sep)
        else:
            cur += text[pos]
            pos += 1
    parts.append(cur)
    return parts


def spec_convert(text: str):
    """What namespaceids_t must make of a str: the identifier list, or None = must refuse."""
    if text == '':
        return []
    if '.' in text:
        parts = split_on(text, '.')
    elif '::' in text:
        parts = split_on(text, '::')
    else:
        parts = [text]
    return parts if all(is_identifier(p) for p in parts) else None


def id_lists(alphabet, lo: int, hi: int) -> list:
    """All identifier lists of length lo..hi over the alphabet, shortest first."""
    out = []
    for length in range(lo, hi + 1):
        out.extend([list(t) for t in itertools.product(alphabet, repeat=length)])
    return out


def flat(parts) -> list:
    return [ident for part in parts for ident in part]


class Tally:
    """Counters and (capped) witnesses of one evaluated case."""

    def __init__(self):
        self.violations = []
        self.counts = {}
        self.doing = None          # (call, facts, case) of the library call in progress
        self._per_mechanism = {}

    def count(self, key: str, n: int = 1):
        self.counts[key] = self.counts.get(key, 0) + n

    def note(self, mechanism: str, detail: dict, case: dict):
        seen = self._per_mechanism.get(mechanism, 0) + 1
        self._per_mechanism[mechanism] = seen
        if seen <= MAX_WITNESSES:
            self.violations.append({'mechanism': mechanism, 'detail': detail, 'case': case})

    def result(self, case: dict, nontrivial: bool, sample=None) -> dict:
        return {'digest': common.digest(case), 'nontrivial': nontrivial, 'sample': sample,
                'counts': self.counts, 'violations': self.violations}


def _lib():
    """The code under test, imported from the working tree only."""
    common.import_dznpy()
    from dznpy import ast_view, json_ast, scoping  # pylint: disable=import-outside-toplevel
    return scoping, ast_view, json_ast


# ---------------------------------------------------------------------------------------------
# lookup monitor: declaration set -> IR -> JSON -> real parser
# ---------------------------------------------------------------------------------------------

def make_decl(kind: str, name: str, tag: int):
    """IR declaration of one findable kind, carrying `t<tag>` in a public payload field."""
    label = f't{tag}'
    port = M.Port(label, M.Ref(['IPort']), 'provides')
    if kind == 'components':
        return M.Component([name], [port])
    if kind == 'enums':
        return M.Enum([name], [label])
    if kind == 'externs':
        return M.Extern([name], label)
    if kind == 'foreigns':
        return M.Foreign([name], [port])
    if kind == 'interfaces':
        return M.Interface([name], [], [M.Event(label, 'in', M.Ref(['void']))])
    if kind == 'subints':
        return M.SubInt([name], tag, tag + 1)
    if kind == 'systems':
        return M.System([name], [port])
    raise ValueError(kind)


def read_tag(kind: str, obj) -> int:
    """The tag of a parsed declaration, read from public payload fields only."""
    if kind in ('components', 'foreigns', 'systems'):
        label = obj.ports.elements[0].name
    elif kind == 'enums':
        label = obj.fields.elements[0]
    elif kind == 'externs':
        label = obj.value.value
    elif kind == 'interfaces':
        label = obj.events.elements[0].name
    else:
        return obj.range.from_int
    return int(label[1:])


def _open(elements: list, ids) -> list:
    namespace = M.Namespace(list(ids), [])
    elements.append(namespace)
    return namespace.elements


def build_model(decls, layout: int, nest_types: bool):
    """The IR model of a declaration set [(kind, fqn)] and its lookup table [(kind, fqn, tag)].
    A declaration [a,b,X] lives in namespace a.b; how a.b is written depends on the layout:
    merged nesting, one re-opened chain per declaration, one multi-identifier namespace, or a
    mix.  With nest_types an enum/subint whose fqn extends an interface's fqn is declared inside
    that interface.  Every document holds imports and file names spelled like the alphabet."""
    model = M.Model(elements=[M.FileName('a'), M.Import('b')])
    root = model.elements
    irs = [make_decl(kind, fqn[-1], tag) for tag, (kind, fqn) in enumerate(decls)]
    hosted = set()
    if nest_types:
        for tag, (kind, fqn) in enumerate(decls):
            if kind not in ('enums', 'subints'):
                continue
            for other, (okind, ofqn) in enumerate(decls):
                if okind == 'interfaces' and ofqn == fqn[:-1]:
                    irs[other].types.append(irs[tag])
                    hosted.add(tag)
                    break
    opened = {}
    for tag, (_, fqn) in enumerate(decls):
        if tag in hosted:
            continue
        path, cur = fqn[:-1], root
        if layout == 0:
            for depth in range(len(path)):
                key = tuple(path[:depth + 1])
                if key not in opened:
                    opened[key] = _open(cur, [path[depth]])
                cur = opened[key]
        elif layout == 1:
            for ident in path:
                cur = _open(cur, [ident])
        elif layout == 2:
            if path:
                cur = _open(cur, path)
        elif path:
            key = (path[0],)
            if key not in opened:
                opened[key] = _open(cur, [path[0]])
            cur = opened[key]
            if len(path) > 1:
                cur = _open(cur, path[1:])
        cur.append(irs[tag])
    for element in root:
        if isinstance(element, M.Namespace):
            element.elements.insert(0, M.Import('c'))
            element.elements.append(M.FileName('a.b'))
            break
    root.append(M.Import('a.dzn'))
    tag_of_ir = {id(ir): tag for tag, ir in enumerate(irs)}
    table = [(kind, fqn, tag_of_ir[id(ir)]) for kind, fqn, ir in M.declared_names(model)]
    if sorted((k, f) for k, f, _ in table) != sorted((k, list(f)) for k, f in decls):
        raise AssertionError('IR model does not declare the requested declaration set')
    return model, table


def index_filecontents(fct, table):
    """({id(parsed declaration): tag}, {tag: object}) over the seven findable containers.
    The monitor cannot judge lookups when parsing lost or invented declarations (that is C05)."""
    kind_of_tag = {tag: kind for kind, _, tag in table}
    by_id, objects = {}, {}
    for kind in M.FINDABLE:
        for obj in getattr(fct, kind):
            tag = read_tag(kind, obj)
            if kind_of_tag.get(tag) != kind or tag in objects:
                raise AssertionError(f'parse precondition: unexpected {kind} entry tagged {tag}')
            by_id[id(obj)] = tag
            objects[tag] = obj
    if len(objects) != len(table):
        raise AssertionError('parse precondition: declarations missing from the containers')
    if not fct.imports or not fct.filenames:
        raise AssertionError('parse precondition: document without import / file name')
    return by_id, objects


def judge_found(func: str, items, expected, by_id, table, facts: dict, tally: Tally, case: dict):
    """Compare the returned objects (by identity) with the expected tags, as a multiset."""
    got = [by_id.get(id(item)) for item in items]
    if None not in got and sorted(got) == expected:
        return
    describe = {tag: [kind, '.'.join(fqn)] for kind, fqn, tag in table}
    facts = dict(facts, declarations=[describe[t] for t in sorted(describe)],
                 expected=[describe[t] for t in expected],
                 got=[describe.get(t, '<not a declaration of the document>') for t in got])
    for item, tag in zip(items, got):
        if tag is None:
            tname = type(item).__name__
            what = {'Import': 'returned-import', 'Filename': 'returned-filename'}.get(
                tname, 'returned-object-not-in-containers')
            tally.note(f'{func}:{what}', dict(facts, returned_type=tname), case)
    known = [t for t in got if t is not None]
    dup = sorted({t for t in known if known.count(t) > 1})
    missing = [t for t in expected if t not in known]
    extra = sorted({t for t in known if t not in expected})
    if dup:
        tally.note(f'{func}:duplicate', dict(facts, witness=[describe[t] for t in dup]), case)
    if missing:
        extra_facts = {'witness': [describe[t] for t in missing],
                       'missing_kinds': sorted({describe[t][0] for t in missing})}
        if 'name' in facts:
            scope_len = len(facts['scope'] or [])
            levels = set()
            for kind, fqn, tag in table:
                if tag in missing:
                    k = len(fqn) - len(facts['name'])
                    levels.add('global' if k == 0 else
                               'innermost' if k == scope_len else 'enclosing')
            extra_facts['missing_level'] = sorted(levels)
        tally.note(f'{func}:missing', dict(facts, **extra_facts), case)
    if extra:
        tally.note(f'{func}:extra', dict(facts, witness=[describe[t] for t in extra]), case)


ARG_KINDS = ['plain', 'derived', 'deepcopy', 'pickled', 'converted']
_DERIVED = {}


def derived(cls):
    """A caller's own subclass of a library class: adds a helper method, changes nothing."""
    if cls not in _DERIVED:
        _DERIVED[cls] = type('My' + cls.__name__, (cls,),
                             {'describe': lambda self: f'<{type(self).__name__} {self}>'})
    return _DERIVED[cls]


def ids_as(scoping, ids, kind: str):
    """The identifier list as a NamespaceIds of the caller's making: plain, an instance of the
    caller's own subclass, a deep copy, a pickle round trip, or converted from a dotted string
    - equal values all, and all `NamespaceIds`."""
    import copy    # pylint: disable=import-outside-toplevel
    import pickle  # pylint: disable=import-outside-toplevel
    plain = scoping.NamespaceIds(items=list(ids))
    if kind == 'derived':
        return derived(scoping.NamespaceIds)(items=list(ids))
    if kind == 'deepcopy':
        return copy.deepcopy(plain)
    if kind == 'pickled':
        return pickle.loads(pickle.dumps(plain))
    if kind == 'converted' and ids:
        return scoping.ns_ids_t('.'.join(ids))
    return plain


def kinds_for(name, scope):
    pick = zlib.crc32(json.dumps([name, scope]).encode())
    return ARG_KINDS[pick % len(ARG_KINDS)], ARG_KINDS[(pick // len(ARG_KINDS)) % len(ARG_KINDS)]


def check_order(scoping, name, scope, tally: Tally, case: dict):
    """scope_resolution_order(name, scope) == [scope[:k]+name for k = len(scope)..0]."""
    expected = M.spec_resolution_order(scope or [], name)
    name_kind, scope_kind = kinds_for(name, scope)
    ns_name = ids_as(scoping, name, name_kind)
    ns_scope = None if scope is None else ids_as(scoping, scope, scope_kind)
    tally.count(f'arguments_given_as_{name_kind}')
    facts = {'name': name, 'scope': scope, 'expected': expected, 'name_given_as': name_kind,
             'scope_given_as': scope_kind}
    tally.doing = ('resolution-order', facts, case)
    try:
        order = scoping.scope_resolution_order(ns_name, ns_scope)
    except Exception as exc:  # pylint: disable=broad-except
        tally.note(f'resolution-order:raised:{type(exc).__name__}',
                   dict(facts, **common.classify_exception(exc)), case)
        return
    tally.count('resolution_orders')
    if not isinstance(order, list) or \
            not all(isinstance(x, scoping.NamespaceIds) for x in order):
        tally.note('resolution-order:differs', dict(facts, how='not-a-list-of-NamespaceIds',
                                                    got=repr(order)[:200]), case)
        return
    got = [list(x.items) for x in order]
    if got != expected:
        if len(got) > 1 and got == expected[::-1]:
            how = 'reversed'
        elif sorted(got) == sorted(expected):
            how = 'reordered'
        elif all(g in expected for g in got):
            how = 'candidates-missing'
        elif all(e in got for e in expected):
            how = 'candidates-extra'
        else:
            how = 'other-candidates'
        tally.note('resolution-order:differs', dict(facts, how=how, got=got), case)
    if any(not is_identifier(i) for g in got for i in g):
        tally.note('handed-out-invalid-identifier', dict(facts, via='scope_resolution_order',
                                                         got=got), case)
    # the candidates belong to the caller: deriving further names from them in place (+=)
    # changes neither the arguments nor what the same question yields next time
    try:
        for cand in order:
            cand += scoping.NamespaceIds(items=['Zz'])
        again = [list(x.items) for x in scoping.scope_resolution_order(ns_name, ns_scope)]
        tally.count('resolution_orders_asked_again_after_extending_the_candidates')
        if again != got:
            tally.note('resolution-order:differs',
                       dict(facts, how='changed-by-extending-earlier-candidates', got=again), case)
    except Exception as exc:  # pylint: disable=broad-except
        tally.note(f'resolution-order:raised:{type(exc).__name__}',
                   dict(facts, **common.classify_exception(exc)), case)
    if list(ns_name.items) != name or (ns_scope is not None and list(ns_scope.items) != scope):
        tally.note('handed-out-value-mutated',
                   dict(facts, where='scope_resolution_order argument',
                        name_after=list(ns_name.items),
                        scope_after=None if ns_scope is None else list(ns_scope.items)), case)
    tally.count('mutation_checks')


def _queries_of(case: dict):
    alphabet = case.get('alphabet', ALPHABET)
    if 'queries' in case:
        queries = [(list(n), None if s is None else list(s)) for n, s in case['queries']]
    else:
        names = id_lists(alphabet, 1, case['name_len'])
        scopes = [None] + id_lists(alphabet, 0, case['scope_depth'])
        queries = [(n, s) for s in scopes for n in names]
    if 'suffixes' in case:
        suffixes = [list(s) for s in case['suffixes']]
    else:
        suffixes = id_lists(alphabet, 1, case['name_len'])
    return queries, suffixes


def eval_lookup(case: dict, tally: 'Tally') -> dict:
    scoping, ast_view, json_ast = _lib()
    decls = [(kind, list(fqn)) for kind, fqn in case['decls']]
    base = {'part': 'lookup', 'decls': [[k, f] for k, f in decls],
            'layout': case.get('layout', 0), 'nest_types': bool(case.get('nest_types'))}
    if 'alphabet' in case:
        base['alphabet'] = case['alphabet']
    model, table = build_model(decls, base['layout'], base['nest_types'])
    text = json.dumps(M.to_json(model))
    tally.doing = ('lookup-document-parse', {'declarations': base['decls']}, dict(case))
    with common.quiet():
        if len(text) % 3 == 0:
            # the model comes from a parser that has just refused a faulty variant of it
            fct = shellbuild.parse_after_refusal(text)
            tally.count('lookup_documents_from_a_parser_reused_after_a_refusal')
        else:
            fct = json_ast.DznJsonAst(text).process()
    by_id, objects = index_filecontents(fct, table)
    fqn_before = {tag: list(obj.fqn.items) for tag, obj in objects.items()}
    queries, suffixes = _queries_of(case)
    tally.count('lookup_documents')
    tally.count(f'layout_{LAYOUTS[base["layout"]]}')
    tally.count('documents_imports_seen', len(fct.imports))
    tally.count('documents_filenames_seen', len(fct.filenames))
    fqns = [tuple(f) for _, f in decls]
    if len(set(fqns)) < len(fqns):
        tally.count('documents_with_same_fqn_in_several_declarations')
    if any(kind in ('enums', 'subints') and len(fqn) > 1 and
           ('interfaces', fqn[:-1]) in decls for kind, fqn in decls) and base['nest_types']:
        tally.count('documents_with_types_nested_in_interface')

    def narrowed(**kwargs):
        return dict(base, **{'queries': [], 'suffixes': [], **kwargs})

    example, outer_hit = None, False
    for name, scope in queries:
        chain = scope or []
        expected = sorted(d[2] for d in M.spec_lookup(table, chain, name))
        one = narrowed(queries=[[name, scope]])
        check_order(scoping, name, scope, tally, one)
        for omit in ([False, True] if scope is None else [False]):
            name_kind, scope_kind = kinds_for(name, scope)
            ns_name = ids_as(scoping, name, name_kind)
            ns_scope = None if scope is None else ids_as(scoping, scope, scope_kind)
            tally.count(f'lookup_scope_given_as_{scope_kind}')
            facts = {'name': name, 'scope': scope, 'scope_argument_omitted': omit,
                     'name_given_as': name_kind, 'scope_given_as': scope_kind}
            tally.doing = ('find_fqn', facts, one)
            try:
                found = ast_view.find_fqn(fct, ns_name) if omit else \
                    ast_view.find_fqn(fct, ns_name, ns_scope)
            except Exception as exc:  # pylint: disable=broad-except
                tally.note(f'find_fqn:raised:{type(exc).__name__}',
                           dict(facts, **common.classify_exception(exc)), one)
                continue
            tally.count('find_fqn_comparisons')
            judge_found('find_fqn', found.items, expected, by_id, table, facts, tally, one)
            if list(ns_name.items) != name or \
                    (ns_scope is not None and list(ns_scope.items) != scope):
                tally.note('handed-out-value-mutated',
                           dict(facts, where='find_fqn argument'), one)
        if expected:
            tally.count('find_fqn_expected_nonempty')
            tally.count('find_fqn_expected_declarations', len(expected))
            if len(expected) > 1:
                tally.count('find_fqn_expected_several')
            if chain:
                outer_hit = True
                if any(len(f) < len(chain) + len(name) for _, f, t in table if t in expected):
                    tally.count('find_fqn_hits_via_enclosing_scope')
                if example is None:
                    example = {'name': '.'.join(name), 'scope': '.'.join(chain),
                               'expected': ['.'.join(f) for _, f, t in table if t in expected]}
        else:
            tally.count('find_fqn_expected_empty')

    # one calling-scope object used for a whole walk: a lookup, the scope grown in place by the
    # next identifier (`scope += ...`), the next lookup - down the path of every declaration
    walked = 0
    for _kind, path, _tag in table[:6]:
        walker = scoping.NamespaceIds(items=[])
        name = path[-1:]
        for level in range(len(path)):
            expected = sorted(d[2] for d in M.spec_lookup(table, path[:level], name))
            facts = {'name': name, 'scope': path[:level], 'walked_in_place': True}
            one = narrowed(queries=[[name, path[:level]]])
            tally.doing = ('find_fqn', facts, one)
            try:
                found = ast_view.find_fqn(fct, scoping.NamespaceIds(items=list(name)), walker)
            except Exception as exc:  # pylint: disable=broad-except
                tally.note(f'find_fqn:raised:{type(exc).__name__}',
                           dict(facts, **common.classify_exception(exc)), one)
                break
            judge_found('find_fqn', found.items, expected, by_id, table, facts, tally, one)
            walked += 1
            walker += scoping.NamespaceIds(items=[path[level]])
    tally.count('lookups_from_a_scope_object_grown_in_place', walked)

    for suffix in suffixes:
        one = narrowed(suffixes=[suffix])
        if not suffix:
            tally.count('find_any_empty_suffix_unspecified')
            continue
        expected = sorted(t for _, f, t in table if f[-len(suffix):] == suffix)
        ns_suffix = ids_as(scoping, suffix, kinds_for(suffix, None)[0])
        tally.doing = ('find_any', {'suffix': suffix}, one)
        try:
            found = ast_view.find_any(fct, ns_suffix)
        except Exception as exc:  # pylint: disable=broad-except
            tally.note(f'find_any:raised:{type(exc).__name__}',
                       dict(common.classify_exception(exc), suffix=suffix), one)
            continue
        tally.count('find_any_comparisons')
        tally.count('find_any_expected_nonempty' if expected else 'find_any_expected_empty')
        judge_found('find_any', found.items, expected, by_id, table, {'suffix': suffix},
                    tally, one)
        if list(ns_suffix.items) != suffix:
            tally.note('handed-out-value-mutated', {'where': 'find_any argument',
                                                    'suffix': suffix}, one)
    if 'suffixes' not in case:
        # outside the stated domain (1..n identifiers): observed, never judged
        try:
            ast_view.find_any(fct, scoping.NamespaceIds(items=[]))
        except Exception:  # pylint: disable=broad-except
            pass
        tally.count('find_any_empty_suffix_unspecified')

    whole = narrowed(queries=[[n, s] for n, s in queries], suffixes=suffixes) \
        if len(queries) <= 50 else dict(case, part='lookup')
    for tag, obj in objects.items():
        after = list(obj.fqn.items)
        if after != fqn_before[tag]:
            tally.note('handed-out-value-mutated',
                       {'where': 'fqn of a parsed declaration after the lookups',
                        'before': fqn_before[tag], 'after': after}, whole)
        if any(not is_identifier(i) for i in after):
            tally.note('handed-out-invalid-identifier', {'via': 'parsed declaration fqn',
                                                         'got': after}, whole)
    tally.count('mutation_checks', len(objects))

    sample = None
    if example is not None:
        sample = {'part': case.get('part', 'lookup'), 'layout': LAYOUTS[base['layout']],
                  'declarations': [f'{k} {".".join(f)}' for k, f in decls],
                  'queries': len(queries), 'suffixes': len(suffixes), 'example': example}
    ident = dict(base, queries=len(queries), suffixes=len(suffixes))
    return tally.result(ident, len(decls) >= 2 and outer_hit, sample)


def eval_order(case: dict, tally: 'Tally') -> dict:
    """scope_resolution_order on its own (it does not depend on any document)."""
    scoping, _, _ = _lib()
    queries, _ = _queries_of(dict(case, suffixes=[]))
    for name, scope in queries:
        check_order(scoping, name, scope, tally, {'part': 'order', 'queries': [[name, scope]]})
    deep = [q for q in queries if q[1] and len(q[1]) >= 2]
    sample = {'part': 'order', 'queries': len(queries),
              'example': {'name': deep[0][0], 'scope': deep[0][1],
                          'expected': M.spec_resolution_order(deep[0][1], deep[0][0])}} \
        if deep else None
    return tally.result({'part': 'order', 'queries': [[n, s] for n, s in queries]},
                        bool(deep), sample)


# ---------------------------------------------------------------------------------------------
# identifier / notation monitor
# ---------------------------------------------------------------------------------------------

def judge_construct(scoping, via: str, thunk, expected, facts: dict, tally: Tally, case: dict):
    """Run one constructing call.  expected = identifier list it must yield, None = it must
    raise NamespaceIdsTypeError.  Returns the value (or None)."""
    tally.doing = ('namespaceids', dict(facts, via=via), case)
    try:
        value = thunk()
    except scoping.NamespaceIdsTypeError:
        tally.count(f'{via}_rejected')
        if expected is not None:
            tally.note('namespaceids:rejects-valid', dict(facts, via=via, expected=expected),
                       case)
        return None
    except Exception as exc:  # pylint: disable=broad-except
        info = common.classify_exception(exc)
        tally.note(f'namespaceids:wrong-exception:{info["type"]}',
                   dict(facts, via=via, expected=expected, **info), case)
        return None
    tally.count(f'{via}_accepted')
    items = list(value.items) if isinstance(value, scoping.NamespaceIds) and \
        isinstance(value.items, list) else None
    if items is None:
        tally.note('namespaceids:not-a-NamespaceIds', dict(facts, via=via,
                                                           got=repr(value)[:200]), case)
        return None
    tally.count('handed_out_values_checked')
    if expected is None:
        tally.note('namespaceids:accepts-invalid', dict(facts, via=via, got=items), case)
    elif items != expected:
        tally.note('notation:conversion-differs', dict(facts, via=via, expected=expected,
                                                       got=items), case)
    elif any(not is_identifier(i) for i in items):
        tally.note('handed-out-invalid-identifier', dict(facts, via=via, got=items), case)
    return value


def hostile_document(text: str) -> str:
    """A well-shaped document whose namespace and declaration names are the candidate."""
    model = M.Model(elements=[M.FileName('f'), M.Import('i'), M.Extern([text], 'int'),
                              M.Namespace([text], [M.Enum([text], ['F'])]),
                              M.Namespace(['ok', text], [M.SubInt(['S'], 0, 1)])])
    return json.dumps(M.to_json(model))


def check_parser(json_ast, text: str, tally: Tally, case: dict):
    """Whatever the parser hands out for a candidate name must consist of identifiers only."""
    tally.doing = ('parser', {'string': text}, case)
    try:
        with common.quiet():
            fct = json_ast.DznJsonAst(hostile_document(text)).process()
    except Exception as exc:  # pylint: disable=broad-except
        # which error a malformed document yields is C15's business, not judged here
        tally.count('parser_refused_valid_name_unjudged' if is_identifier(text)
                    else 'parser_refused_invalid_name')
        tally.count(f'parser_refusal_{type(exc).__name__}')
        return
    tally.count('parser_accepted')
    handed = []
    for obj in fct.externs + fct.enums + fct.subints:
        handed.append(list(obj.fqn.items))
        handed.append(list(obj.name.value.items))
        handed.append(list(obj.parent_ns.fqn.items))
        if obj.parent_ns.scope_name is not None:
            handed.append(list(obj.parent_ns.scope_name.items))
    tally.count('handed_out_values_checked', len(handed))
    bad = [ids for ids in handed if any(not is_identifier(i) for i in ids)]
    if bad:
        tally.note('parser:handed-out-invalid-identifier',
                   {'string': text, 'offence': offence(text), 'got': bad[:3]}, case)


def eval_ident(case: dict, tally: 'Tally') -> dict:
    scoping, _, json_ast = _lib()
    n_valid = 0
    for pos, text in enumerate(case['strings']):
        one = {'part': 'ident', 'strings': [text], 'parse': True}
        valid = is_identifier(text)
        n_valid += valid
        facts = {'string': text, 'is_identifier': valid, 'offence': offence(text)}
        tally.count('ident_strings_judged')
        tally.count('ident_strings_valid' if valid else 'ident_strings_invalid')
        single = [text] if valid else None
        value = judge_construct(scoping, 'NamespaceIds', lambda t=text: scoping.NamespaceIds(
            items=[t]), single, facts, tally, one)
        tally.count('ident_accepted' if value is not None else 'ident_rejected')
        judge_construct(scoping, 'NamespaceIds_second_item',
                        lambda t=text: scoping.NamespaceIds(items=['a', t, '_9']),
                        ['a', text, '_9'] if valid else None, facts, tally, one)
        judge_construct(scoping, 'namespaceids_t_list', lambda t=text: scoping.namespaceids_t(
            [t]), single, facts, tally, one)
        converted = spec_convert(text)
        if '.' in text:
            tally.count('str_inputs_dotted')
        elif '::' in text:
            tally.count('str_inputs_double_colon')
        facts = dict(facts, spec_parts=converted)
        judge_construct(scoping, 'namespaceids_t_str', lambda t=text: scoping.namespaceids_t(t),
                        converted, facts, tally, one)
        judge_construct(scoping, 'ns_ids_t_str', lambda t=text: scoping.ns_ids_t(t),
                        converted, facts, tally, one)
        if case.get('parse') or pos % 10 == 0:
            check_parser(json_ast, text, tally, one)
    total = len(case['strings'])
    sample = {'part': case.get('part', 'ident'), 'strings': total, 'valid': n_valid,
              'first': case['strings'][:8]}
    return tally.result({'part': 'ident', 'strings': case['strings']},
                        0 < n_valid < total, sample)


def eval_rejects(case: dict, tally: 'Tally') -> dict:
    """Arguments that are neither str, list of str nor NamespaceIds must be refused with
    NamespaceIdsTypeError (documented behaviour of namespaceids_t and of the dataclass)."""
    scoping, _, _ = _lib()
    for arg in BAD_ARGUMENTS:
        facts = {'argument': repr(arg), 'argument_type': type(arg).__name__}
        tally.count('non_str_arguments_judged')
        judge_construct(scoping, 'namespaceids_t_other', lambda a=arg: scoping.namespaceids_t(a),
                        None, facts, tally, case)
        judge_construct(scoping, 'ns_ids_t_other', lambda a=arg: scoping.ns_ids_t(a),
                        None, facts, tally, case)
        judge_construct(scoping, 'NamespaceIds_other', lambda a=arg: scoping.NamespaceIds(
            items=a), None, facts, tally, case)
    return tally.result({'part': 'rejects'}, False, None)


def _unchanged(tally: Tally, case: dict, where: str, pairs):
    """pairs of (NamespaceIds, the identifier list it was built from)."""
    for value, original in pairs:
        tally.count('mutation_checks')
        if list(value.items) != original:
            tally.note('handed-out-value-mutated', {'where': where, 'before': original,
                                                    'after': list(value.items)}, case)


def _valid(tally: Tally, case: dict, via: str, value):
    tally.count('handed_out_values_checked')
    if any(not is_identifier(i) for i in value.items):
        tally.note('handed-out-invalid-identifier', {'via': via, 'got': list(value.items)}, case)


def check_notation(scoping, left, right, third, tally: Tally, case: dict):
    """All notation and concatenation laws for the identifier lists left, right, third."""
    def make(ids):
        return scoping.NamespaceIds(items=list(ids))

    def trip(step, expected, thunk):
        tally.count('roundtrips')
        tally.doing = ('notation', {'step': step, 'ids': left}, case)
        try:
            got = thunk()
        except Exception as exc:  # pylint: disable=broad-except
            tally.note(f'notation:raised:{type(exc).__name__}',
                       dict(common.classify_exception(exc), step=step, ids=left), case)
            return
        if isinstance(got, scoping.NamespaceIds):
            _valid(tally, case, step, got)
            got = list(got.items)
        if got != expected:
            tally.note('notation:roundtrip', {'step': step, 'ids': left, 'expected': expected,
                                              'got': got}, case)

    dotted, coloned = '.'.join(left), '::'.join(left)
    trip('list -> NamespaceIds', left, lambda: scoping.namespaceids_t(list(left)))
    trip('dotted str -> NamespaceIds', left, lambda: scoping.namespaceids_t(dotted))
    trip(':: str -> NamespaceIds', left, lambda: scoping.namespaceids_t(coloned))
    trip('ns_ids_t(dotted)', left, lambda: scoping.ns_ids_t(dotted))
    trip('ns_ids_t(::)', left, lambda: scoping.ns_ids_t(coloned))
    trip('str(NamespaceIds) is dotted', dotted, lambda: str(make(left)))
    trip('namespaceids_t(str(x)) == x', True,
         lambda: scoping.namespaceids_t(str(make(left))) == make(left))
    trip('namespaceids_t(x) == x', True, lambda: scoping.namespaceids_t(make(left)) == make(left))
    trip('dotted == :: == list', True,
         lambda: scoping.namespaceids_t(dotted) == scoping.namespaceids_t(coloned)
         == scoping.namespaceids_t(list(left)))

    # a value handed out for a string (or computed from a tree) belongs to the caller: extending
    # it in place with += must not change what the same conversion hands out next time
    def extended_then_again(step, thunk):
        def run():
            first = thunk()
            first += make(right or ['Zz'])
            return thunk()
        tally.count('conversions_repeated_after_in_place_extension')
        trip(step, left, run)
    if left:
        extended_then_again('namespaceids_t(dotted) after += on the earlier result',
                            lambda: scoping.namespaceids_t(dotted))
        extended_then_again('namespaceids_t(::) after += on the earlier result',
                            lambda: scoping.namespaceids_t(coloned))
        extended_then_again('ns_ids_t(dotted) after += on the earlier result',
                            lambda: scoping.ns_ids_t(dotted))
        extended_then_again('namespaceids_t(list) after += on the earlier result',
                            lambda: scoping.namespaceids_t(list(left)))

    def concat(step, expected, thunk, inputs):
        tally.count('concatenations')
        tally.doing = ('concat', {'step': step, 'ids': [left, right, third]}, case)
        try:
            got = thunk()
        except Exception as exc:  # pylint: disable=broad-except
            tally.note(f'concat:raised:{type(exc).__name__}',
                       dict(common.classify_exception(exc), step=step), case)
            return
        _valid(tally, case, step, got)
        if list(got.items) != expected:
            tally.note('concat:differs', {'step': step, 'expected': expected,
                                          'got': list(got.items)}, case)
        _unchanged(tally, case, f'{step} operand', inputs)

    a, b, c = make(left), make(right), make(third)
    concat('a + b', left + right, lambda: a + b, [(a, left), (b, right)])
    concat('a + a', left + left, lambda: a + a, [(a, left)])
    concat('empty + a', left, lambda: make([]) + a, [(a, left)])

    # a sum belongs to the caller: extending it in place changes neither operand, nor the
    # next sum of the same operands - whichever of them is empty
    def sum_extended_then_again(x_ids, y_ids):
        x, y = make(x_ids), make(y_ids)

        def run():
            total = x + y
            total += make(third or ['Zz'])
            return x + y
        tally.count('sums_repeated_after_in_place_extension')
        concat(f'x + y after += on the earlier sum (|x|={min(len(x_ids), 1)}, '
               f'|y|={min(len(y_ids), 1)})', x_ids + y_ids, run, [(x, x_ids), (y, y_ids)])
    for x_ids, y_ids in ((left, right), ([], left), (left, []), ([], [])):
        sum_extended_then_again(list(x_ids), list(y_ids))

    def iadd():
        target = make(left)
        target += b
        return target
    concat('a += b', left + right, iadd, [(a, left), (b, right)])
    concat('sum_namespaceids_items([a, b, c])', left + right + third,
           lambda: scoping.sum_namespaceids_items([a, b, c]),
           [(a, left), (b, right), (c, third)])
    concat('sum_namespaceids_items([a, a])', left + left,
           lambda: scoping.sum_namespaceids_items([a, a]), [(a, left)])
    concat('sum_namespaceids_items([])', [], lambda: scoping.sum_namespaceids_items([]), [])

    parts_pool = [left, right, third, right + left]
    for depth in range(0, 5):
        parts = [parts_pool[i % len(parts_pool)] for i in range(depth)]
        names = [make(p) for p in parts]
        node = scoping.NamespaceTree()
        nodes = [node]
        for scope_name in names:
            node = scoping.NamespaceTree(parent=node, scope_name=scope_name)
            nodes.append(node)
        member = make(third)
        pairs = list(zip(names, parts)) + [(member, third)]
        tally.count('namespace_trees')
        concat(f'NamespaceTree.fqn depth {depth}', flat(parts), lambda n=node: n.fqn, pairs)
        concat(f'NamespaceTree.fqn again depth {depth}', flat(parts), lambda n=node: n.fqn, pairs)
        concat(f'fqn_member_name depth {depth}', flat(parts) + third,
               lambda n=node, m=member: n.fqn_member_name(m), pairs)
        for level, inner in enumerate(nodes):
            concat(f'NamespaceTree.fqn of ancestor, depth {depth}', flat(parts[:level]),
                   lambda n=inner: n.fqn, pairs)

        def fqn_after_extension(n=node):
            got = n.fqn
            got += make(['Zz'])
            return n.fqn
        concat(f'NamespaceTree.fqn after += on the earlier result, depth {depth}', flat(parts),
               fqn_after_extension, pairs)


def eval_notation(case: dict, tally: 'Tally') -> dict:
    scoping, _, _ = _lib()
    lists = [list(ids) for ids in case['lists']]
    for pos, left in enumerate(lists):
        right = lists[(pos + 1) % len(lists)]
        third = lists[(pos + 2) % len(lists)]
        check_notation(scoping, left, right, third, tally,
                       {'part': 'notation', 'lists': [left, right, third]})
        tally.count('notation_lists')
    multi = [ids for ids in lists if len(ids) >= 2]
    sample = {'part': case.get('part', 'notation'), 'lists': len(lists),
              'example': {'list': multi[0], 'dotted': '.'.join(multi[0]),
                          'double_colon': '::'.join(multi[0])}} if multi else None
    return tally.result({'part': 'notation', 'lists': lists}, bool(multi), sample)


# ---------------------------------------------------------------------------------------------
# case descriptors -> explicit cases
# ---------------------------------------------------------------------------------------------

def small_sets(depth: int) -> list:
    """All declaration sets of size <= 2 over the fqns to `depth`, plus every fqn declared
    twice (two kinds, one name)."""
    fqns = id_lists(ALPHABET, 1, depth)
    sets = [[]] + [[f] for f in fqns] + [list(p) for p in itertools.combinations(fqns, 2)]
    return sets + [[f, f] for f in fqns]


def random_set(rng: random.Random, alphabet, depth: int, lo: int, hi: int) -> list:
    """A larger declaration set: related names (shared last identifiers, prefixes of each other),
    kinds rotated over the seven containers, several declarations with one fqn."""
    decls = []
    offset = rng.randrange(7)
    size = rng.randint(lo, hi)
    while len(decls) < size:
        kind = M.FINDABLE[(offset + len(decls)) % 7]
        roll = rng.random()
        if decls and roll < 0.2:                       # same fqn, other (or same) container
            fqn = list(rng.choice(decls)[1])
            if rng.random() < 0.25:
                kind = rng.choice([k for k, f in decls if f == fqn])
        elif decls and roll < 0.45:                    # same simple name in another namespace
            last = rng.choice(decls)[1][-1]
            fqn = [rng.choice(alphabet) for _ in range(rng.randint(0, depth - 1))] + [last]
        elif decls and roll < 0.6:                     # nested below an existing declaration
            fqn = list(rng.choice(decls)[1])
            fqn = (fqn + [rng.choice(alphabet)])[:depth] if len(fqn) < depth else fqn[1:]
            fqn = fqn or [rng.choice(alphabet)]
            if rng.random() < 0.5:
                kind = rng.choice(['enums', 'subints'])
        else:
            fqn = [rng.choice(alphabet) for _ in range(rng.randint(1, depth))]
        decls.append([kind, fqn])
    rng.shuffle(decls)
    return decls


def hostile_strings(maxlen: int) -> list:
    out = []
    for length in range(0, maxlen + 1):
        out.extend(''.join(t) for t in itertools.product(HOSTILE, repeat=length))
    for ch in LOOKALIKES:
        out.extend([ch, 'a' + ch, ch + 'a', 'A_' + ch + '9'])
    return out


def sampled_strings(rng: random.Random, n: int) -> list:
    pool = HOSTILE + EXTRA_HOSTILE

    def token(lo, hi, hostile):
        chars = [rng.choice(ID_CHARS + ['b', 'Q', '9']) for _ in range(rng.randint(lo, hi))]
        if hostile and chars:
            chars[rng.randrange(len(chars))] = rng.choice(pool)
        elif hostile:
            chars = [rng.choice(pool)]
        return ''.join(chars)

    out = []
    for _ in range(n):
        roll = rng.random()
        if roll < 0.35:
            out.append(''.join(rng.choice(HOSTILE) for _ in range(rng.randint(3, 6))))
        elif roll < 0.6:
            out.append(token(3, 6, rng.random() < 0.7))
        else:
            sep = rng.choice(['.', '::', '.', '::', ':', '..', ':::', '.::'])
            out.append(sep.join(token(0 if rng.random() < 0.1 else 1, 3, rng.random() < 0.3)
                                for _ in range(rng.randint(2, 4))))
    return out


def valid_ids(maxlen: int) -> list:
    out = []
    for length in range(1, maxlen + 1):
        out.extend(s for s in (''.join(t) for t in itertools.product(ID_CHARS, repeat=length))
                   if is_identifier(s))
    return out


def expand(case: dict) -> dict:
    """Turn a small descriptor (what the driver hands to the workers) into an explicit case."""
    part = case['part']
    if any(key in case for key in ('decls', 'strings', 'lists', 'queries')):
        return case                                     # already explicit (a replayed case)
    rng = random.Random(f'{PROP}:{case.get("seed")}:{part}:{case.get("stream")}')
    if part == 'lookup-small':
        index = case['index']
        fqns = small_sets(case['depth'])[index]
        decls = [[M.FINDABLE[(index + j) % 7], f] for j, f in enumerate(fqns)]
        return {'part': part, 'decls': decls, 'layout': index % 4, 'nest_types': index % 3 == 0,
                'name_len': case['depth'], 'scope_depth': case['depth']}
    if part == 'lookup-random':
        return {'part': part, 'decls': random_set(rng, ALPHABET, 3, 3, 8),
                'layout': rng.randrange(4), 'nest_types': rng.random() < 0.5,
                'name_len': case['depth'], 'scope_depth': case['depth']}
    if part == 'lookup-beyond':
        # every fourth set reaches far deeper: declarations 17-40 namespaces down
        deep = (case.get('stream') or 0) % 4 == 3
        decls = random_set(rng, BEYOND_ALPHABET, [20, 40][(case.get('stream') or 0) // 4 % 2], 3, 8) \
            if deep else random_set(rng, BEYOND_ALPHABET, 5, 3, 12)
        queries, suffixes = [], []
        for _ in range(300):
            fqn = rng.choice(decls)[1]
            cut = rng.randrange(len(fqn))
            scope = fqn[:cut] + [rng.choice(BEYOND_ALPHABET) for _ in range(rng.randint(0, 3))]
            if rng.random() < 0.2:
                scope = [rng.choice(BEYOND_ALPHABET) for _ in range(rng.randint(0, 6))]
            name = fqn[cut:] if rng.random() < 0.8 else \
                [rng.choice(BEYOND_ALPHABET) for _ in range(rng.randint(1, 5))]
            queries.append([name, scope if rng.random() < 0.95 else None])
            suffixes.append(fqn[rng.randrange(len(fqn)):] if rng.random() < 0.8 else
                            [rng.choice(BEYOND_ALPHABET) for _ in range(rng.randint(1, 5))])
        return {'part': part, 'decls': decls, 'layout': rng.randrange(4),
                'nest_types': rng.random() < 0.5, 'alphabet': BEYOND_ALPHABET,
                'queries': queries, 'suffixes': suffixes}
    if part == 'order-all':
        return {'part': part, 'name_len': case['depth'], 'scope_depth': case['depth']}
    if part == 'order-beyond':
        queries = [[[rng.choice(BEYOND_ALPHABET) for _ in range(rng.randint(1, 6))],
                    [rng.choice(BEYOND_ALPHABET) for _ in range(rng.randint(0, 8))]]
                   for _ in range(case['n'])]
        return {'part': part, 'queries': queries}
    if part == 'ident-all':
        index, parts = case['slice']
        return {'part': part, 'strings': hostile_strings(case['maxlen'])[index::parts],
                'parse': True}
    if part == 'ident-sampled':
        return {'part': part, 'strings': sampled_strings(rng, case['n'])}
    if part == 'notation-all':
        index, parts = case['slice']
        ids = valid_ids(2)
        return {'part': part, 'lists': ([[i] for i in ids] +
                                        [[i, j] for i in ids for j in ids])[index::parts]}
    if part == 'notation-sampled':
        ids = valid_ids(3) + ['Some_Name9', 'x' * 40, '__', 'A', 'z0']
        return {'part': part, 'lists': [[rng.choice(ids) for _ in range(rng.randint(1, 4))]
                                        for _ in range(case['n'])]}
    return case


class Deadline(BaseException):
    """The CPU-time budget of one case ran out inside a library call."""


def _on_deadline(signum, frame):
    raise Deadline()


EVALUATORS = [('lookup', eval_lookup), ('order', eval_order), ('ident', eval_ident),
              ('notation', eval_notation), ('rejects', eval_rejects)]


def eval_case(case: dict) -> dict:
    """Evaluate a descriptor or an explicit (replayed) case.  A library call that does not come
    back within the case's CPU budget (far above what a whole case needs) is a witness too:
    nothing was returned."""
    case = expand(case)
    func = [f for prefix, f in EVALUATORS if case['part'].startswith(prefix)]
    if not func:
        raise ValueError(f'unknown case part {case["part"]!r}')
    tally = Tally()
    previous = signal.signal(signal.SIGVTALRM, _on_deadline)
    signal.setitimer(signal.ITIMER_VIRTUAL, CASE_CPU_SECONDS)
    try:
        return func[0](case, tally)
    except Deadline:
        call, facts, doing_case = tally.doing or ('harness', {}, case)
        tally.note(f'{call}:no-result-within-cpu-budget',
                   dict(facts, cpu_seconds=CASE_CPU_SECONDS), doing_case)
        return tally.result(case, False, None)
    finally:
        signal.setitimer(signal.ITIMER_VIRTUAL, 0)
        signal.signal(signal.SIGVTALRM, previous)


def _worker(descriptor: dict) -> dict:
    return eval_case(descriptor)


# ---------------------------------------------------------------------------------------------
# driver
# ---------------------------------------------------------------------------------------------

def plan(tier: str, seed: int):
    """The descriptors of one run, per part, and which parts are enumerated exhaustively."""
    quick = tier == 'quick'
    depth = 2 if quick else 3
    n_random, n_beyond = (300, 40) if quick else (2000, 400)
    maxlen, n_sampled, per_case = (2, 3000, 250) if quick else (3, 100000, 1000)
    slices = 4 if quick else 16
    parts = {
        'lookup-small': [{'part': 'lookup-small', 'depth': depth, 'index': i}
                         for i in range(len(small_sets(depth)))],
        'lookup-random': [{'part': 'lookup-random', 'depth': 3, 'seed': seed, 'stream': i}
                          for i in range(n_random)],
        'lookup-beyond': [{'part': 'lookup-beyond', 'seed': seed, 'stream': i}
                          for i in range(n_beyond)],
        'order-all': [{'part': 'order-all', 'depth': 3}],
        'order-beyond': [{'part': 'order-beyond', 'seed': seed, 'stream': i, 'n': 500}
                         for i in range(2 if quick else 20)],
        'ident-all': [{'part': 'ident-all', 'maxlen': maxlen, 'slice': [i, slices]}
                      for i in range(slices)],
        'ident-sampled': [{'part': 'ident-sampled', 'seed': seed, 'stream': i, 'n': per_case}
                          for i in range(n_sampled // per_case)],
        'notation-all': [{'part': 'notation-all', 'slice': [i, 8]} for i in range(8)],
        'notation-sampled': [{'part': 'notation-sampled', 'seed': seed, 'stream': i, 'n': 100}
                             for i in range(4 if quick else 40)],
        'rejects': [{'part': 'rejects'}],
    }
    exhaustive = {
        f'lookup-small: every declaration set of size <=2 (and every fqn declared twice) over '
        f'fqns of depth <={depth} on {{a,b,c}}, x every name of 1..{depth} ids x every calling '
        f'scope of depth 0..{depth} and None, x every suffix of 1..{depth} ids': True,
        'lookup-random: declaration sets of size 3..8 are sampled; their queries (39 names x '
        '41 scopes, 39 suffixes) are enumerated': False,
        'lookup-beyond: 5-identifier alphabet to depth 5 (every fourth set to depth 20 or 40), sets and queries sampled': False,
        'order-all: every name of 1..3 ids x every scope of depth 0..3 and None': True,
        'order-beyond: sampled': False,
        f'ident-all: every string of length <={maxlen} over the 12-character hostile '
        f'alphabet': True,
        'ident-sampled: sampled': False,
        'notation-all: every list of 1..2 identifiers of length <=2 over {a,Z,_,7}': True,
        'notation-sampled: sampled': False,
    }
    return parts, exhaustive


def interleave(parts: dict) -> list:
    """Round-robin over the parts: spreads the heavy cases and lets the first absorbed cases
    (the recorded samples) come from different monitors."""
    queues = [list(v) for v in parts.values()]
    out = []
    while any(queues):
        for queue in queues:
            if queue:
                out.append(queue.pop(0))
    return out


def main(tier: str) -> int:
    run = common.Run(PROP, tier)
    run.max_samples = 6
    parts, exhaustive = plan(tier, run.seed)
    run.extra['exhaustive_parts'] = exhaustive
    run.extra['cases_per_part'] = {k: len(v) for k, v in parts.items()}
    run.require('find_fqn_comparisons', 'find_fqn_expected_nonempty',
                'find_fqn_hits_via_enclosing_scope', 'find_any_comparisons',
                'find_any_expected_nonempty', 'resolution_orders', 'ident_strings_judged',
                'ident_accepted', 'ident_rejected', 'namespaceids_t_str_accepted',
                'namespaceids_t_str_rejected', 'roundtrips', 'concatenations',
                'namespace_trees', 'mutation_checks', 'non_str_arguments_judged',
                'documents_with_same_fqn_in_several_declarations',
                'documents_imports_seen', 'documents_filenames_seen')
    for item, res in run.pmap(_worker, interleave(parts), chunksize=4, timeout=900):
        common.absorb(run, item, res)
    return run.finish(
        rule='lookup: declaration sets over nested namespaces on {a,b,c} (kinds rotated over the '
             'seven findable containers, imports and file names in every document, four ways of '
             'writing the namespaces, enums/subints inside interfaces) -> IR -> JSON -> real '
             'parser; find_fqn / find_any compared as multisets of tagged objects (identity) '
             'with the set comprehensions, scope_resolution_order as a list; identifiers: '
             'hand-written validator versus NamespaceIds / namespaceids_t / ns_ids_t / parser; '
             'notations: list, dotted, :: round trips, +, +=, sum, NamespaceTree.fqn, '
             'fqn_member_name with inputs compared before/after; distinct = digest of the '
             'explicit case; non-trivial = lookup case with >=2 declarations and a query from a '
             'non-global calling scope with a non-empty expected result (identifier case: valid '
             'and invalid strings; notation case: a list of >=2 identifiers)',
        assumptions=['find_any with an empty suffix is outside the stated domain: observed, '
                     'never judged',
                     'the order of the items returned by find_fqn / find_any is not stated: '
                     'compared as multisets',
                     'a calling scope of None is read as the global scope',
                     'which exception the parser raises for an invalid name is left to C15'],
        exhaustive=False)


def replay(path: str) -> int:
    return common.generic_replay(PROP, eval_case, path)
