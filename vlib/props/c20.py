"""C20 - cpp_gen declarations and definitions denote the same entity; blocks are balanced.

Monitors (all on the real classes, decided by oracles that never call cpp_gen for expectations):
 A. parse-back: every Function/Constructor/Destructor description is rendered with as_decl and
    as_def, both texts are read back by the token scanner in vlib/cpptok.py and compared with
    what the description (the generator's own JSON record) said, and with each other.
 B. block monitor: Namespace/Struct/Class/AccessSpecifiedSection/includes/Comment rendered
    around random contents; open/close pairs, names, unchanged contents, strict setter typing.
 C. compiler: random valid compositions (50 classes per translation unit) through
    `g++ -std=c++17 -fsyntax-only -Wall` (thorough: every 10th also clang++-14).
"""
import os
import random
import re
import shutil
import subprocess
import tempfile

from .. import common
from .. import cpptok as T

PROP = 'C20'
CLASSES_PER_TU = 50
BATCH = 250

# ---------------------------------------------------------------------------------------------
# pools
# ---------------------------------------------------------------------------------------------
BASIC = ['int', 'double', 'float', 'bool', 'char', 'size_t']
IDS = ['My', 'Project', 'XY', 'Hal', 'IHeater', 'Data', 'a', 'b_1', '_x', 'N0', 'Inner', 'detail',
       'Toaster', 'std', 'string', 'ILedControl', 'T9']
OWNERS = ['MyToaster', 'MyStruct', 'MyClass', 'K', 'Outer_1', '_Impl', 'Shell', 'X9']
FUNC_NAMES = ['Calculate', 'Process', 'Calc', 'f', 'get_value', 'Run', '_reset', 'x1', 'Toaster',
              'MyToaster', 'check_bindings']
OPERATOR_NAMES = ['operator==', 'operator+=', 'operator<', 'operator[]', 'operator!']
PARAM_NAMES = ['x', 'y', 'number', 'message', 'example', 'data', 'p0', '_q', 'count', 'other', 'v2']
DEFAULTS = ['0', '123u', '1.5', '""', '"a, b"', '{}', 'nullptr', '{1, 2}', 'std::string("x, y")',
            'My::Data{1, {2, 3}}', '-1', 'sizeof(int)', "'c'", "','", 'a < b', 'Foo<int>()',
            'f(1, 2)', '::My::kDefault', '1e-3', '0x1F', '")("']
CAVS = ['', '', '', 'const', 'const', 'volatile', 'const volatile', 'noexcept', 'const noexcept']
MILS = ['m_number(1)', 'm_two{2 }', 'm_xyz ("Two")', 'm_a(x)', 'm_v{1, 2}', 'Base(x, y)',
        'm_p(nullptr)']
SNIPPETS = [['SomeContents'], ['SomeContents', 'MoreContents'], ['int x = 0;'], [''],
            ['return {};'], ['    indented();'], ['void g() {', '    h();', '}'],
            ['namespace In {', '}'], ['if (a) { b(); }'], ['const char* s = "}{";'],
            ['// } a comment'], ['x', '', 'y'], ['struct Q', '{', '    int a;', '};'],
            ['', ''], ['a();  '], ['/* { */ call(1, 2);']]
INCLUDES = ['string', 'vector', 'dzn/pump.hh', 'IToaster.h', 'ProjectB/Lunchbox.h', 'a_b.hpp',
            'x/y/z.hh', 'memory']
FQN_VIAS = ['list', 'dot', 'colons', 'Fqn', 'nsids']


def content_lines(text: str):
    """The lines a text denotes: '\\n'-separated, one optional final EOL; '' is no line."""
    if text == '':
        return []
    parts = text.split('\n')
    if len(parts) > 1 and parts[-1] == '':
        parts.pop()
    return parts


# ---------------------------------------------------------------------------------------------
# generators (JSON descriptions; the record of what was SAID)
# ---------------------------------------------------------------------------------------------
def gen_fqn_ids(rng, lo=1, hi=3):
    return [rng.choice(IDS) for _ in range(rng.randint(lo, hi))]


def gen_typespec(rng, ret=False, with_default=False):
    if rng.random() < 0.4:
        ids, root, targ = [rng.choice(BASIC + (['void'] if ret else []))], False, None
    else:
        ids, root, targ = gen_fqn_ids(rng), rng.random() < 0.25, None
        if rng.random() < 0.3:
            targ = {'ids': gen_fqn_ids(rng, 0 if rng.random() < 0.1 else 1, 2),
                    'root': rng.random() < 0.3, 'via': rng.choice(FQN_VIAS)}
    spec = {'ids': ids, 'root': root, 'targ': targ, 'postfix': rng.choice(['', '', '&', '*']),
            'const': rng.random() < 0.3, 'default': None, 'via': rng.choice(FQN_VIAS)}
    if with_default:
        r = rng.random()
        spec['default'] = None if r < 0.5 else '' if r < 0.6 else rng.choice(DEFAULTS)
    return spec


def gen_params(rng):
    n = rng.choice([0, 0, 1, 1, 2, 3, 4, 5])
    names = rng.sample(PARAM_NAMES, n)
    params = []
    for name in names:
        spec = gen_typespec(rng, with_default=True)
        how = 'Param'
        if spec['targ'] is None and rng.random() < 0.4:
            if not spec['const'] and spec['postfix'] == '':
                how = 'param_t'
            elif spec['const'] and spec['postfix'] == '&':
                how = 'const_param_ref_t'
            elif spec['const'] and spec['postfix'] == '*':
                how = 'const_param_ptr_t'
        params.append({'type': spec, 'name': name, 'how': how})
    return params


def gen_lines(rng, max_lines=6, p_empty=0.25):
    if rng.random() < p_empty:
        return []
    lines = []
    for _ in range(rng.randint(1, 3)):
        snip = rng.choice(SNIPPETS)
        if rng.random() < 0.02:
            snip = ['   ']  # whitespace-only line: what happens to it is left open
        if len(lines) + len(snip) <= max_lines:
            lines.extend(snip)
    return lines


def gen_contents(rng):
    if rng.random() < 0.4:
        return ''
    lines = gen_lines(rng, p_empty=0.0) or ['SomeContents']
    return '\n'.join(lines) + ('\n' if rng.random() < 0.5 else '')


def gen_desc(rng):
    kind = rng.choices(['function', 'ctor', 'dtor'], [60, 25, 15])[0]
    scope = None
    if kind != 'function' or rng.random() < 0.6:
        scope = {'sc': rng.choice(['struct', 'class']), 'name': rng.choice(OWNERS)}
    d = {'kind': kind, 'scope': scope, 'contents': gen_contents(rng)}
    if kind == 'function':
        prefix = rng.choice([None, None, 'static', 'virtual'])
        if prefix == 'virtual' and scope is None and rng.random() < 0.85:
            prefix = None  # keep most draws inside the documented domain
        init = rng.choice(['', '', '', 'delete', '0', 'default'])
        if init == '0' and prefix != 'virtual' and rng.random() < 0.85:
            if scope is not None:
                prefix = 'virtual'
            else:
                init = 'delete'
        d.update({'ret': gen_typespec(rng, ret=True),
                  'name': rng.choice(OPERATOR_NAMES if rng.random() < 0.05 else FUNC_NAMES),
                  'params': gen_params(rng), 'prefix': prefix, 'cav': rng.choice(CAVS),
                  'override': rng.random() < 0.2, 'init': init})
    elif kind == 'ctor':
        init = rng.choice(['', '', '', 'default', 'delete'])
        mil = rng.sample(MILS, rng.choice([0, 0, 1, 2, 3]))
        if init and mil and rng.random() < 0.9:
            mil = []
        d.update({'explicit': rng.random() < 0.4, 'params': gen_params(rng), 'init': init,
                  'mil': mil})
    else:
        d.update({'override': rng.random() < 0.3,
                  'init': rng.choice(['', '', 'default', 'delete', '0'])})
    d['lean'] = rng.random() < 0.4
    if d.get('params') and rng.random() < 0.2:
        # the description is completed in place after it has been rendered once (a preview, a
        # log line): the last parameter is appended to the object's own parameter list
        d['staged'] = True
    return d


# ---------------------------------------------------------------------------------------------
# builders: JSON description -> real cpp_gen objects
# ---------------------------------------------------------------------------------------------
def build_fqn(ids, root, via='list'):
    from dznpy import cpp_gen as G  # pylint: disable=import-outside-toplevel
    from dznpy.scoping import NamespaceIds, ns_ids_t  # pylint: disable=import-outside-toplevel
    ids = list(ids)
    if via == 'dot' and ids:
        return G.fqn_t('.'.join(ids), root)
    if via == 'colons' and ids:
        return G.fqn_t('::'.join(ids), root)
    if via == 'Fqn':
        return G.Fqn(NamespaceIds(ids), root)
    if via == 'nsids':
        return G.fqn_t(ns_ids_t(ids), root)
    return G.fqn_t(ids, root)


def build_type(spec):
    from dznpy import cpp_gen as G  # pylint: disable=import-outside-toplevel
    targ = spec.get('targ')
    kwargs = {}
    if spec.get('default') is not None:
        kwargs['default_value'] = spec['default']
    return G.TypeDesc(fqn=build_fqn(spec['ids'], spec['root'], spec.get('via', 'list')),
                      template_arg=None if targ is None else G.TemplateArg(
                          build_fqn(targ['ids'], targ['root'], targ.get('via', 'list'))),
                      postfix=G.TypePostfix(spec['postfix']), const=bool(spec['const']), **kwargs)


def build_param(par):
    from dznpy import cpp_gen as G  # pylint: disable=import-outside-toplevel
    spec, how = par['type'], par.get('how', 'Param')
    helper = {'param_t': G.param_t, 'const_param_ref_t': G.const_param_ref_t,
              'const_param_ptr_t': G.const_param_ptr_t}.get(how)
    if helper is None:
        return G.Param(type_desc=build_type(spec), name=par['name'])
    fqn = build_fqn(spec['ids'], spec['root'], spec.get('via', 'list'))
    if spec.get('default') is None:
        return helper(fqn, par['name'])
    return helper(fqn, par['name'], spec['default'])


def build_scope(scope):
    from dznpy import cpp_gen as G  # pylint: disable=import-outside-toplevel
    if scope is None:
        return None
    return (G.Struct if scope['sc'] == 'struct' else G.Class)(scope['name'])


def build_desc(d, scope_obj=None):
    """The real object of a description.  With d['lean'] every argument that equals its
    documented default is left out, so the object runs on the class's own defaults (empty
    parameter list, empty member initialiser list, ...)."""
    from dznpy import cpp_gen as G  # pylint: disable=import-outside-toplevel
    scope = scope_obj if scope_obj is not None else build_scope(d['scope'])
    lean = bool(d.get('lean'))

    def drop_defaults(kwargs, defaults):
        if not lean:
            return kwargs
        return {k: v for k, v in kwargs.items() if k not in defaults or v != defaults[k]}

    if d['kind'] == 'function':
        kwargs = dict(params=[build_param(p) for p in d['params']],
                      prefix=G.FunctionPrefix(d['prefix']), cav=d['cav'],
                      override=d['override'], initialization=d['init'],
                      contents=d['contents'], scope=scope)
        defaults = dict(params=[], prefix=G.FunctionPrefix.MEMBER_FUNCTION, cav='',
                        override=False, initialization='', contents='', scope=None)
        return G.Function(return_type=build_type(d['ret']), name=d['name'],
                          **drop_defaults(kwargs, defaults))
    if d['kind'] == 'ctor':
        kwargs = dict(explicit=d['explicit'], params=[build_param(p) for p in d['params']],
                      initialization=d['init'], member_initlist=list(d['mil']),
                      contents=d['contents'])
        defaults = dict(explicit=False, params=[], initialization='', member_initlist=[],
                        contents='')
        return G.Constructor(scope=scope, **drop_defaults(kwargs, defaults))
    kwargs = dict(override=d['override'], initialization=d['init'], contents=d['contents'])
    defaults = dict(override=False, initialization='', contents='')
    return G.Destructor(scope=scope, **drop_defaults(kwargs, defaults))


def outside_documented_domain(d):
    """Combinations the dataclasses document as rejected (CppGenError in __post_init__)."""
    if d['kind'] == 'function':
        return (d['prefix'] == 'virtual' and d['scope'] is None) or \
               (d['init'].startswith('0') and d['prefix'] != 'virtual')
    if d['kind'] == 'ctor':
        return bool(d['init']) and bool(d['mil'])
    return False


# ---------------------------------------------------------------------------------------------
# A. parse-back oracle
# ---------------------------------------------------------------------------------------------
def expected_type(spec):
    ids, targ = list(spec['ids']), spec.get('targ')
    return {'const': bool(spec['const']), 'root': bool(spec['root']) and bool(ids), 'ids': ids,
            'targ': None if targ is None else {'root': bool(targ['root']) and bool(targ['ids']),
                                               'ids': list(targ['ids'])},
            'postfix': spec['postfix']}


def tok_texts(text):
    return T.texts(T.scan(text))


def expected_sig(d):
    """What the description says, in the shape read_sig() produces (declaration side)."""
    owner = d['scope']['name'] if d['scope'] else None
    params = []
    for par in d.get('params', []):
        dflt = par['type'].get('default')
        params.append({'type': expected_type(par['type']), 'name': par['name'],
                       'default': tok_texts(dflt) if dflt else None})
    prefix = []
    if d['kind'] == 'function' and d['prefix']:
        prefix = [d['prefix']]
    if d['kind'] == 'ctor' and d['explicit']:
        prefix = ['explicit']
    return {'prefix': prefix,
            'ret': expected_type(d['ret']) if d['kind'] == 'function' else None,
            'tilde': d['kind'] == 'dtor',
            'name': d['name'] if d['kind'] == 'function' else owner,
            'params': params,
            'cav': tok_texts(d.get('cav', '')),
            'override': bool(d.get('override', False)),
            'init': tok_texts(d['init']) if d['init'] else None}


def read_sig(text):
    sig = T.parse_signature(T.scan(text))
    sig['ret'] = T.parse_type(sig['ret']) if sig['ret'] else None
    for par in sig['params']:
        par['type'] = T.parse_type(par['type'])
    return sig


def diff_params(pa, pb):
    """Tags for the differences between two parameter lists (types, names, order, count)."""
    if len(pa) != len(pb):
        return {'param-count'}
    tags = set()
    pairs_a = [(repr(p['type']), p['name']) for p in pa]
    pairs_b = [(repr(p['type']), p['name']) for p in pb]
    if pairs_a != pairs_b and sorted(map(repr, pairs_a)) == sorted(map(repr, pairs_b)):
        return {'param-order'}
    if [p[0] for p in pairs_a] != [p[0] for p in pairs_b]:
        tags.add('param-type')
    if [p[1] for p in pairs_a] != [p[1] for p in pairs_b]:
        tags.add('param-name')
    return tags


def diff_sig(a, b, fields):
    tags = set()
    for fld in fields:
        if fld == 'params':
            tags |= diff_params(a['params'], b['params'])
        elif fld == 'name':
            if (a['tilde'], a['name']) != (b['tilde'], b['name']):
                tags.add('name')
        elif a[fld] != b[fld]:
            tags.add({'ret': 'return-type'}.get(fld, fld))
    return tags


def check_def_layout(d, dfn, out):
    """Body and layout of a non-empty definition; returns the signature text or None."""
    unspecified = 0
    if not dfn.endswith('\n'):
        out('def-layout:no-final-newline', {'def': dfn})
        return None, 0
    lines = dfn[:-1].split('\n')
    body = content_lines(d['contents'])
    mil = d.get('mil', []) if d['kind'] == 'ctor' else []
    if not body and not mil:
        if len(lines) != 1:
            out('def-layout:empty-body-not-one-line', {'def': dfn})
            return lines[0], 0
        if not lines[0].endswith(' {}'):
            out('def-layout:empty-body-form', {'def': dfn})
        return lines[0], 0
    rest = lines[1:]
    exp_mil = [('    : ' if i == 0 else '    , ') + m for i, m in enumerate(mil)]
    if rest[:len(exp_mil)] != exp_mil:
        out('def-body:member-initlist', {'expected': exp_mil, 'got': rest[:len(exp_mil) + 1]})
        return lines[0], 0
    rest = rest[len(exp_mil):]
    if len(rest) < 2 or rest[0] != '{' or rest[-1] != '}':
        out('def-layout:braces', {'def': dfn})
        return lines[0], 0
    got = rest[1:-1]
    if len(got) != len(body):
        out('def-body:contents-altered', {'expected_lines': body, 'got_lines': got,
                                          'what': 'line-count'})
        return lines[0], 0
    for want, have in zip(body, got):
        if want.strip() == '':
            if have == '':
                unspecified += 1 if want != '' else 0
            elif have != '    ' + want:
                out('def-body:contents-altered', {'expected_line': want, 'got_line': have})
                break
        elif have != '    ' + want:
            tag = 'def-body:contents-indentation' if have.strip() == want.strip() \
                else 'def-body:contents-altered'
            out(tag, {'expected_line': '    ' + want, 'got_line': have})
            break
    return lines[0], unspecified


def check_desc(d):
    """Evaluate one description.  Returns {'violations', 'counts', 'nontrivial', 'digest'}."""
    viols, counts = [], {}

    def bump(key, n=1):
        counts[key] = counts.get(key, 0) + n

    def out(mech, detail):
        detail = dict(detail)
        detail.setdefault('kind', d['kind'])
        viols.append({'mechanism': mech, 'detail': detail, 'case': {'kind': 'desc', 'desc': d}})

    res = {'violations': viols, 'counts': counts, 'digest': common.digest(d)}
    has_params = bool(d.get('params'))
    has_defaults = any(p['type'].get('default') for p in d.get('params', []))
    res['nontrivial'] = bool(has_params or d['contents'] or d.get('cav') or d.get('prefix')
                             or d['init'] or d.get('explicit') or d.get('override'))
    outside = outside_documented_domain(d)
    try:
        if d.get('staged') and d.get('params'):
            obj = build_desc(dict(d, params=d['params'][:-1]))
            _ = obj.as_decl, obj.as_def
            obj.params.append(build_param(d['params'][-1]))
            bump('descriptions_completed_in_place_after_rendering')
            if d.get('lean') and len(d['params']) == 1:
                bump('default_parameter_list_extended_in_place')
        else:
            obj = build_desc(d)
        decl, dfn = obj.as_decl, obj.as_def
    except Exception as exc:  # pylint: disable=broad-except
        info = common.classify_exception(exc)
        if outside and info['type'] == 'CppGenError':
            bump('rejected_by_validation')
            return res
        info['kind'] = d['kind']
        out(f'valid-description-refused:{info["type"]}', info)
        return res
    if outside:
        bump('unspecified_accepted_outside_documented_domain')
    bump(f'descriptions_{d["kind"]}')
    bump('desc_with_scope' if d['scope'] else 'desc_without_scope')
    for flag, key in ((has_params, 'desc_with_params'), (has_defaults, 'desc_with_defaults'),
                      (d['init'], 'desc_with_initialisation'), (d['contents'], 'desc_with_contents'),
                      (d.get('cav'), 'desc_with_cav'), (d.get('override'), 'desc_with_override'),
                      (d.get('explicit'), 'desc_explicit'), (d.get('mil'), 'desc_with_member_initlist'),
                      (d.get('prefix') == 'virtual', 'desc_virtual'),
                      (d.get('prefix') == 'static', 'desc_static'),
                      (any(p['type'].get('targ') for p in d.get('params', [])),
                       'desc_with_template_arg_param'),
                      (any(p['type']['root'] for p in d.get('params', [])),
                       'desc_with_root_ns_param')):
        if flag:
            bump(key)
    if not isinstance(decl, str) or not isinstance(dfn, str):
        out('render-not-a-string', {'decl': repr(decl)[:200], 'def': repr(dfn)[:200]})
        return res
    want = expected_sig(d)
    owner = d['scope']['name'] if d['scope'] else None

    # ---- declaration ----
    if not decl.endswith(';\n') or '\n' in decl[:-1]:
        out('decl-layout:not-one-line-ending-in-semicolon', {'decl': decl})
        return res
    try:
        got_decl = read_sig(decl)
    except T.TokError as exc:
        out('unparseable:decl', {'decl': decl, 'why': str(exc)})
        return res
    bump('decls_read_back')
    decl_tags = diff_sig(want, got_decl, ['name', 'ret', 'params', 'cav'])
    if got_decl['qual'] or got_decl['qual_root']:
        decl_tags.add('name-qualified')
    for fld in ('prefix', 'override', 'init'):
        if want[fld] != got_decl[fld]:
            decl_tags.add(fld)
    if [p['default'] for p in want['params']] != [p['default'] for p in got_decl['params']] \
            and 'param-count' not in decl_tags:
        decl_tags.add('default')
    if got_decl['tail'] != [';']:
        decl_tags.add('tail')
    for tag in sorted(decl_tags):
        out(f'decl-differs-from-description:{tag}', {'decl': decl, 'field': tag})

    # ---- definition present / absent ----
    if d['init']:
        bump('defs_empty')
        if dfn != '':
            out('def-present-although-initialised', {'decl': decl, 'def': dfn, 'init': d['init']})
        return res
    if dfn == '':
        out('def-missing', {'decl': decl})
        return res
    bump('defs_nonempty')
    sig_text, unspecified = check_def_layout(d, dfn, out)
    if unspecified:
        bump('unspecified_whitespace_only_content_line', unspecified)
    if sig_text is None:
        return res
    try:
        got_def = read_sig(sig_text)
    except T.TokError as exc:
        out('unparseable:def', {'def': dfn, 'why': str(exc)})
        return res
    bump('decl_def_pairs_compared')
    bump('params_compared', len(got_decl['params']))
    both = {'decl': decl, 'def': dfn}
    pair_tags = diff_sig(got_decl, got_def, ['name', 'ret', 'params', 'cav'])
    for tag in sorted(pair_tags):
        out(f'decl-def-mismatch:{tag}', dict(both, field=tag))
    for tag in sorted(diff_sig(want, got_def, ['name', 'ret', 'params', 'cav']) - pair_tags
                      - decl_tags):
        out(f'def-differs-from-description:{tag}', dict(both, field=tag))
    if any(p['default'] is not None for p in got_def['params']):
        out('def-has-default', both)
    for kw in got_def['prefix']:
        out(f'def-has-prefix:{kw}', both)
    if got_def['override']:
        out('def-has-override', both)
    if got_def['init'] is not None:
        out('def-has-initialisation', both)
    tail_ok = got_def['tail'] == (['{', '}'] if sig_text.endswith('{}') else [])
    if not tail_ok:
        out('def-layout:signature-line-tail', dict(both, tail=got_def['tail']))
    if owner is not None:
        if not got_def['qual'] and not got_def['qual_root']:
            out('def-not-qualified', dict(both, owner=owner))
        elif got_def['qual'] != [owner] or got_def['qual_root']:
            out('def-wrongly-qualified', dict(both, owner=owner, got=got_def['qual']))
        bump('defs_qualified_by_owner')
    else:
        if got_def['qual'] or got_def['qual_root']:
            out('def-qualified-without-scope', dict(both, got=got_def['qual']))
        bump('defs_unqualified')
    return res


# ---------------------------------------------------------------------------------------------
# A'. small building blocks: Fqn, TemplateArg, TypeDesc, Param, MemberVariable, *_t creators
# ---------------------------------------------------------------------------------------------
def fqn_tokens(ids, root):
    toks = []
    for i, ident in enumerate(ids):
        if i or root:
            toks.append('::')
        toks.append(ident)
    return toks


def gen_misc(rng):
    spec = gen_typespec(rng, with_default=True)
    if rng.random() < 0.1:
        spec['ids'], spec['targ'] = [], None  # the empty name
    return {'kind': 'misc', 'type': spec, 'name': rng.choice(PARAM_NAMES)}


def check_misc(case):
    from dznpy import cpp_gen as G  # pylint: disable=import-outside-toplevel
    spec, name = case['type'], case['name']
    viols, counts = [], {}

    def out(mech, detail):
        viols.append({'mechanism': mech, 'detail': detail, 'case': case})

    def same(mech, got, want, **more):
        counts['misc_comparisons'] = counts.get('misc_comparisons', 0) + 1
        if got != want:
            out(mech, dict(more, got=got, expected=want))

    res = {'violations': viols, 'counts': counts, 'digest': common.digest(case),
           'nontrivial': bool(spec['ids'])}
    ids, root = spec['ids'], spec['root']
    try:
        for via in FQN_VIAS:
            text = str(build_fqn(ids, root, via))
            if not ids:
                same('fqn-empty-not-empty-string', text, '', via=via, root=root)
            else:
                same('fqn-text', tok_texts(text), fqn_tokens(ids, root), via=via, text=text)
        for empty in (None, '', []):
            for flag in (False, True):
                same('fqn-empty-not-empty-string', str(G.fqn_t(empty, flag)), '', arg=repr(empty))
        if not ids:
            counts['misc_empty_fqn'] = 1
            return res
        tdesc = build_type(spec)
        ttext = str(tdesc)
        same('typedesc-text', T.parse_type(tok_texts(ttext)), expected_type(spec), text=ttext)
        if spec['targ'] is not None:
            targ = spec['targ']
            atext = str(G.TemplateArg(build_fqn(targ['ids'], targ['root'])))
            same('templatearg-text', tok_texts(atext),
                 ['<'] + fqn_tokens(targ['ids'], targ['root']) + ['>'], text=atext)
        par = G.Param(type_desc=tdesc, name=name)
        dflt = spec.get('default')
        for side, text in (('decl', par.as_decl), ('def', par.as_def)):
            got = T.parse_signature(T.scan(f'f({text})'))['params']
            want_default = tok_texts(dflt) if (dflt and side == 'decl') else None
            ok = len(got) == 1 and T.parse_type(got[0]['type']) == expected_type(spec) \
                and got[0]['name'] == name
            if not ok:
                out(f'param-{side}-text', {'text': text, 'read': got})
            elif got[0]['default'] != want_default:
                out('param-def-has-default' if side == 'def' else 'param-decl-default',
                    {'text': text, 'default_said': dflt, 'read': got[0]['default']})
            counts['misc_comparisons'] = counts.get('misc_comparisons', 0) + 1
        mtext = str(G.MemberVariable(type=tdesc, name=name))
        mtoks = tok_texts(mtext)
        same('membervariable-text',
             (T.parse_type(mtoks[:-2]), mtoks[-2:]) if len(mtoks) >= 3 else mtoks,
             (expected_type(spec), [name, ';']), text=mtext)
        # shortcut creators
        fqn = build_fqn(ids, root)
        plain = dict(spec, targ=None, const=False)
        for creator, postfix in ((G.decl_var_t, ''), (G.decl_var_ref_t, '&'), (G.decl_var_ptr_t, '*')):
            mtoks = tok_texts(str(creator(fqn, name)))
            same(f'{creator.__name__}-text', (T.parse_type(mtoks[:-2]), mtoks[-2:]),
                 (expected_type(dict(plain, postfix=postfix)), [name, ';']))
        for creator, postfix, const in ((G.param_t, '', False), (G.const_param_ref_t, '&', True),
                                        (G.const_param_ptr_t, '*', True)):
            for value in (None, dflt):
                par = creator(fqn, name) if value is None else creator(fqn, name, value)
                etype = expected_type(dict(plain, postfix=postfix, const=const))
                for side, text in (('decl', par.as_decl), ('def', par.as_def)):
                    got = T.parse_signature(T.scan(f'f({text})'))['params']
                    want_default = tok_texts(value) if (value and side == 'decl') else None
                    same(f'{creator.__name__}-{side}-text',
                         [(T.parse_type(g['type']), g['name'], g['default']) for g in got],
                         [(etype, name, want_default)], text=text)
        for creator, word in ((G.void_t, 'void'), (G.int_t, 'int'), (G.float_t, 'float'),
                              (G.double_t, 'double')):
            same(f'{creator.__name__}-text', tok_texts(str(creator())), [word])
    except Exception as exc:  # pylint: disable=broad-except
        info = common.classify_exception(exc)
        out(f'valid-description-refused:{info["type"]}', info)
    return res


# ---------------------------------------------------------------------------------------------
# B. block monitor
# ---------------------------------------------------------------------------------------------
NS_IDS = ['My', 'Project', 'XY', 'A', 'B', 'detail', 'N0', '_x', 'dzn', 'Inner_2']
BAD_CONTENTS = [123, 'a string', ['a', 'list'], None, 4.5, {'k': 'v'}]


def gen_block(rng):
    block = rng.choices(['namespace', 'struct', 'class', 'section', 'sysinc', 'projinc', 'comment'],
                        [35, 15, 15, 17, 6, 6, 6])[0]
    case = {'kind': 'block', 'block': block, 'lines': gen_lines(rng),
            'form': rng.choice(['list', 'list', 'string', 'pieces', 'headed', 'comment', 'nested']),
            'how': rng.choice(['ctor', 'ctor', 'setter', 'setter-bad', 'inplace', 'handed-over'])}
    if block in ('namespace', 'struct', 'class'):
        case['subclassed'] = rng.random() < 0.3
    if block == 'namespace':
        case['ids'] = [rng.choice(NS_IDS) for _ in range(rng.choice([0, 1, 1, 2, 2, 3, 4]))]
        case['ids_via'] = rng.choice(['list', 'NamespaceIds', 'dot', 'colons', 'sum', 'sum'])
    elif block in ('struct', 'class'):
        case['name'] = rng.choice(OWNERS)
    elif block == 'section':
        case['access'] = rng.choice(['PUBLIC', 'PROTECTED', 'PRIVATE', 'ANONYMOUS'])
    elif block in ('sysinc', 'projinc'):
        case['includes'] = rng.sample(INCLUDES, rng.choice([0, 1, 1, 2, 3, 5]))
    if case['how'] == 'setter-bad':
        case['bad'] = rng.randrange(len(BAD_CONTENTS))
        case['old_lines'] = gen_lines(rng)
    elif case['how'] == 'setter':
        case['old_lines'] = gen_lines(rng)
    return case


def build_tb(lines, form):
    """A TextBlock denoting exactly `lines` (which hold no newlines), built in several ways."""
    from dznpy.text_gen import TextBlock  # pylint: disable=import-outside-toplevel
    if form == 'string' and lines:
        return TextBlock('\n'.join(lines) + '\n')
    if form == 'pieces':
        tb = TextBlock()
        for line in lines:
            tb += line
        return tb
    # contents whose rendering is more than their bare lines buffer
    if form == 'headed' and len(lines) >= 2 and lines[0]:
        return TextBlock(list(lines[1:]), header=lines[0])
    if form == 'comment' and lines:
        from dznpy.cpp_gen import Comment  # pylint: disable=import-outside-toplevel
        return Comment(list(lines))
    if form == 'nested' and len(lines) >= 2:
        return TextBlock([TextBlock(lines[0]), [list(lines[1:-1]), TextBlock([lines[-1]])]])
    return TextBlock(list(lines))


def rendered_lines(lines, form):
    """The lines a block has to show for contents built by build_tb(lines, form)."""
    if form == 'comment' and lines:
        return ['//' if not line.strip() else '// ' + line for line in lines]
    return list(lines)


def check_block(case):
    from dznpy import cpp_gen as G  # pylint: disable=import-outside-toplevel
    from dznpy.scoping import NamespaceIds, ns_ids_t  # pylint: disable=import-outside-toplevel
    viols, counts = [], {}
    block, lines = case['block'], list(case['lines'])
    # every third scope block is made from the caller's own subclass of the library class
    sub = bool(case.get('subclassed'))
    Struct, Class = (common.derived(G.Struct), common.derived(G.Class)) if sub else (G.Struct, G.Class)
    Namespace = common.derived(G.Namespace) if sub else G.Namespace

    def bump(key, n=1):
        counts[key] = counts.get(key, 0) + n

    def out(mech, detail):
        viols.append({'mechanism': mech, 'detail': dict(detail, block=block), 'case': case})

    res = {'violations': viols, 'counts': counts, 'digest': common.digest(case),
           'nontrivial': bool(lines or case.get('ids') or case.get('includes'))}
    try:
        if block in ('namespace', 'struct', 'class'):
            if sub:
                bump('scope_blocks_made_from_a_subclass')
            how = case['how']
            first = build_tb(lines if how == 'ctor' else case.get('old_lines', []), case['form'])
            if block == 'namespace':
                ids = list(case['ids'])
                via = case.get('ids_via', 'list')
                nsi = NamespaceIds(ids) if via in ('NamespaceIds', 'sum') or not ids else \
                    ns_ids_t('.'.join(ids)) if via == 'dot' else \
                    ns_ids_t('::'.join(ids)) if via == 'colons' else ns_ids_t(ids)
                derived = None
                if via == 'sum':
                    # the script also names a namespace below this one: a sum with the (empty)
                    # root or sub-namespace list, extended in place - before the block exists
                    # or (below) after; the sum is the script's own value
                    derived = (NamespaceIds([]) + nsi) if len(lines) % 2 else (nsi + NamespaceIds([]))
                    if len(ids) % 2:
                        derived += NamespaceIds(['v2'])
                obj = Namespace(nsi, first) if first.lines or how != 'ctor' or ids else \
                    Namespace(nsi)
            else:
                obj = (Struct if block == 'struct' else Class)(case['name'], first)
            if how == 'inplace':
                # no initial contents; filled through the getter - and nobody else may see it
                obj = Namespace(nsi) if block == 'namespace' else \
                    (Struct if block == 'struct' else Class)(case['name'])
                for line in lines:
                    obj.contents.append(line)
                bump('contents_filled_in_place')
                for cls_name, fresh in (('namespace', Namespace(ns_ids_t(['Other']))),
                                        ('struct', G.Struct('Other')), ('class', G.Class('Other'))):
                    if fresh.contents.lines:
                        out('fresh-block-shares-contents-with-another',
                            {'fresh': cls_name, 'leaked': fresh.contents.lines[:5]})
                        break
            elif how == 'handed-over':
                # the caller keeps the block it handed over and goes on filling it.  Whether a
                # scope block sees that (aliasing) or not (defensive copy) is its business, but
                # it cannot depend on how much the block held at hand-over: none or one line
                def make(tb):
                    return Namespace(nsi, tb) if block == 'namespace' else \
                        (Struct if block == 'struct' else Class)(case['name'], tb)
                some, none = build_tb(lines[:1], 'list'), build_tb([], 'list')
                obj_some, obj = make(some), make(none)
                for line in lines[1:]:
                    some.append(line)
                for line in lines:
                    none.append(line)
                if len(lines) >= 2:
                    bump('contents_handed_over_then_filled')
                    if str(obj_some) == str(make(build_tb(lines, 'list'))):
                        bump('handed_over_block_is_aliased')
                    elif str(obj_some) == str(make(build_tb(lines[:1], 'list'))):
                        bump('handed_over_block_is_copied')
                        lines = []
                    else:
                        out(f'{block}-contents-altered', {'what': 'handed over with one line, '
                                                          'filled afterwards', 'text': str(obj_some)})
                else:
                    obj = make(build_tb(lines, 'list'))   # too short to tell the two designs apart
            elif how == 'setter':
                obj.contents = build_tb(lines, case['form'])
                bump('contents_replaced_by_setter')
            elif how == 'setter-bad':
                bad = BAD_CONTENTS[case['bad']]
                lines = list(case.get('old_lines', []))
                try:
                    obj.contents = bad
                    out('contents-setter-accepts-non-textblock', {'value': repr(bad)})
                except TypeError:
                    bump('setter_rejections_typeerror')
                except ValueError:
                    if bad is None:
                        bump('unspecified_setter_none_raises_valueerror')
                    else:
                        out('contents-setter-wrong-exception:ValueError', {'value': repr(bad)})
            if block == 'namespace' and derived is not None:
                if not len(ids) % 2:
                    derived += NamespaceIds(['v2'])
                bump('namespace_named_next_to_a_sum_that_was_extended_in_place')
                check_scoped_block(dict(case, ids=ids + ['v2']), [], str(Namespace(derived)),
                                   out, bump)
            text = str(obj)
            if str(obj) != text:
                out(f'{block}-render-not-repeatable', {'text': text})
            if how not in ('inplace', 'handed-over'):
                lines = rendered_lines(lines, case['form'])
                bump(f'contents_form_{case["form"]}')
            check_scoped_block(case, lines, text, out, bump)
        elif block == 'section':
            spec = G.AccessSpecifier[case['access']]
            # the statement promises unchanged contents for namespaces, structs and classes; a
            # section is only given contents that are their own lines buffer
            form = case['form'] if case['form'] not in ('headed', 'comment') else 'list'
            text = str(G.AccessSpecifiedSection(spec, build_tb(lines, form)))
            check_section(case, lines, text, out, bump)
        elif block in ('sysinc', 'projinc'):
            incs = list(case['includes'])
            text = str((G.SystemIncludes if block == 'sysinc' else G.ProjectIncludes)(incs))
            check_includes(block, incs, text, out, bump)
        else:
            obj = G.Comment(list(lines))
            text = str(obj)
            if str(obj) != text or obj.lines != lines:
                out('comment-render-not-repeatable', {'text': text})
            got = content_lines(text)
            bump('blocks_comment')
            if len(got) != len(lines):
                out('comment-lines-altered', {'expected': lines, 'got': got})
            for want, have in zip(lines, got):
                if want.strip() == '':
                    ok = have == '//'
                else:
                    ok = have.startswith('// ') and have[3:].rstrip() == want.rstrip()
                    if ok and have[3:] != want:
                        bump('unspecified_comment_trailing_whitespace_stripped')
                if not ok:
                    out('comment-line-altered', {'expected_after_slashes': want, 'got': have})
                    break
    except Exception as exc:  # pylint: disable=broad-except
        info = common.classify_exception(exc)
        out(f'valid-description-refused:{info["type"]}', info)
    return res


def check_scoped_block(case, lines, text, out, bump):
    block = case['block']
    bump(f'blocks_{block}')
    if text and not text.endswith('\n'):
        out(f'{block}-no-final-newline', {'text': text})
        return
    got = content_lines(text)
    bal = T.brace_balance(text)
    if bal:
        out(f'{block}-unbalanced:{bal}', {'text': text})
    if block == 'namespace':
        ids = case['ids']
        head = ['namespace'] + fqn_tokens(ids, False) + ['{']
        bump('namespace_empty_ids' if not ids else f'namespace_ids_{len(ids)}')
        if not lines and len(got) == 1:
            bump('namespace_oneliner')
            if tok_texts(got[0]) != head + ['}']:
                out('namespace-open-mismatch', {'text': text, 'ids': ids})
            return
        if len(got) < 2:
            out('namespace-unbalanced:missing-lines', {'text': text})
            return
        if tok_texts(got[0]) != head:
            out('namespace-open-mismatch', {'text': text, 'ids': ids, 'got': got[0]})
        close = T.scan(got[-1], keep_comments=True)
        named = None
        if len(close) == 2 and close[0].text == '}' and close[1].kind == 'comment':
            words = close[1].text[2:].split()
            if words[:1] == ['namespace'] and len(words) <= 2:
                named = words[1] if len(words) == 2 else ''
        if len(close) == 1 and close[0].text == '}':
            bump('unspecified_namespace_close_without_comment')
        elif named is None or tok_texts(named) != fqn_tokens(ids, False):
            out('namespace-close-mismatch', {'close': got[-1], 'ids': ids})
        inner = got[1:-1]
    else:
        word = 'struct' if block == 'struct' else 'class'
        if len(got) < 3:
            out(f'{block}-unbalanced:missing-lines', {'text': text})
            return
        head = tok_texts(got[0])
        if head[:1] != [word]:
            out(f'{block}-head-mismatch:keyword', {'head': got[0], 'expected_keyword': word})
        if head[1:] != [case['name']]:
            out(f'{block}-head-mismatch:name', {'head': got[0], 'name': case['name']})
        if got[1] != '{' or got[-1] != '};':
            out(f'{block}-close-mismatch', {'open': got[1], 'close': got[-1]})
        inner = got[2:-1]
    if case.get('form') == 'comment':
        # whether a comment keeps trailing white space is left open
        inner, lines = [x.rstrip() for x in inner], [x.rstrip() for x in lines]
    if inner != lines:
        what = 'indentation' if [x.strip() for x in inner] == [x.strip() for x in lines] \
            else 'lines'
        out(f'{block}-contents-altered', {'expected': lines, 'got': inner, 'what': what})
    else:
        bump('block_contents_compared')


def check_section(case, lines, text, out, bump):
    bump('blocks_section')
    bump(f'section_{case["access"].lower()}')
    got = content_lines(text)
    word = {'PUBLIC': 'public:', 'PROTECTED': 'protected:', 'PRIVATE': 'private:'}.get(
        case['access'])
    if word is not None:
        if got[:1] != [word]:
            out('section-specifier-mismatch', {'expected': word, 'got': got[:1]})
            return
        got = got[1:]
    if len(got) != len(lines):
        out('section-contents-altered', {'expected': lines, 'got': got, 'what': 'line-count'})
        return
    for want, have in zip(lines, got):
        if want.strip() == '':
            if have == '' and want != '':
                bump('unspecified_whitespace_only_content_line')
            ok = have in ('', '    ' + want)
        else:
            ok = have == '    ' + want
        if not ok:
            tag = 'section-contents-not-indented' if have.strip() == want.strip() and \
                not have.startswith('    ' + want[:1]) else 'section-contents-altered'
            out(tag, {'expected_line': '    ' + want, 'got_line': have})
            return
    bump('block_contents_compared')


def check_includes(block, incs, text, out, bump):
    bump(f'blocks_{block}')
    got = content_lines(text)
    word = 'System' if block == 'sysinc' else 'Project'
    heads = {0: [f'// {word} include', f'// {word} includes'], 1: [f'// {word} include']}.get(
        len(incs), [f'// {word} includes'])
    if not incs:
        bump('unspecified_empty_include_list')
    if got[:1] not in [[h] for h in heads]:
        out('includes-header-mismatch', {'expected_one_of': heads, 'got': got[:1]})
        return
    want = [f'#include <{x}>' if block == 'sysinc' else f'#include "{x}"' for x in incs]
    if got[1:] != want:
        out('includes-line-mismatch', {'expected': want, 'got': got[1:]})
    else:
        bump('include_lines_compared', len(want))


# ---------------------------------------------------------------------------------------------
# C. compiler oracle: valid compositions only
# ---------------------------------------------------------------------------------------------
PROJECT_HEADER = 'c20_types.h'
PROJECT_HEADER_TEXT = '''#pragma once
namespace My { struct Data { int v = 0; }; template <typename T> struct Box { T v{}; }; }
'''
C_NS_IDS = ['Alpha', 'Beta', 'gamma', 'N0', 'Inner', 'detail', 'Project_2']
C_PARAM_NAMES = ['a', 'b', 'count', 'msg', 'items', 'ptr', 'value', 'other']
# base kinds: (ids, targ ids or None, literals usable as default / member initialiser)
C_BASES = {
    'int': (['int'], None, ['0', '42', '-1']),
    'double': (['double'], None, ['1.5', '0.0']),
    'string': (['std', 'string'], None, ['""', '"a, b"', '{}']),
    'vec_int': (['std', 'vector'], ['int'], ['{}', '{1, 2}']),
    'vec_str': (['std', 'vector'], ['std', 'string'], ['{}']),
    'vec_data': (['std', 'vector'], ['My', 'Data'], ['{}']),
    'data': (['My', 'Data'], None, ['{}', 'My::Data{}']),
    'box_int': (['My', 'Box'], ['int'], ['{}']),
    'box_data': (['My', 'Box'], ['My', 'Data'], ['{}']),
}
C_BODIES = ['', '(void)0;', 'int q = 0;\n(void)q;', 'if (true)\n{\n    int z = 1;\n    (void)z;\n}',
            'const char* s = "}{";\n\n(void)s;\n', '// note: } {\n', 'for (int i = 0; i < 2; ++i) { }']


def c_type(rng, base=None, shape=None, allow_nonconst_ref=True):
    base = base or rng.choice(list(C_BASES))
    ids, targ, _ = C_BASES[base]
    shapes = ['value', 'value', 'const_value', 'const_ref', 'const_ref', 'ptr', 'const_ptr']
    if allow_nonconst_ref:
        shapes.append('ref')
    shape = shape or rng.choice(shapes)
    simple = len(ids) == 1
    spec = {'ids': list(ids), 'root': (not simple) and rng.random() < 0.3,
            'targ': None if targ is None else {'ids': list(targ),
                                               'root': len(targ) > 1 and rng.random() < 0.3,
                                               'via': rng.choice(FQN_VIAS)},
            'postfix': {'ref': '&', 'const_ref': '&', 'ptr': '*', 'const_ptr': '*'}.get(shape, ''),
            'const': shape.startswith('const'), 'default': None, 'via': rng.choice(FQN_VIAS),
            'base': base, 'shape': shape}
    return spec


def c_literal(rng, spec):
    if spec['postfix'] == '*':
        return 'nullptr'
    return rng.choice(C_BASES[spec['base']][2])


def c_sig_key(params):
    """Overload identity: top-level const of by-value parameters does not count."""
    return tuple((tuple(p['type']['ids']), repr(p['type']['targ'] and p['type']['targ']['ids']),
                  p['type']['postfix'], p['type']['const'] and p['type']['postfix'] != '')
                 for p in params)


def c_params(rng, max_n=4):
    n = rng.choice([0, 1, 1, 2, 2, 3, max_n])
    names = rng.sample(C_PARAM_NAMES, n)
    params = [{'type': c_type(rng), 'name': nm, 'how': 'Param'} for nm in names]
    first_default = rng.randint(0, n) if rng.random() < 0.6 else n
    for i, par in enumerate(params):
        spec = par['type']
        if i >= first_default:
            if spec['shape'] == 'ref':  # no literal binds to a non-const reference
                spec.update(shape='const_ref', const=True)
            spec['default'] = c_literal(rng, spec)
        if spec['targ'] is None:
            if not spec['const'] and spec['postfix'] == '' and rng.random() < 0.3:
                par['how'] = 'param_t'
            elif spec['const'] and spec['postfix'] == '&' and rng.random() < 0.3:
                par['how'] = 'const_param_ref_t'
            elif spec['const'] and spec['postfix'] == '*' and rng.random() < 0.3:
                par['how'] = 'const_param_ptr_t'
    return params


def base_text(spec):
    text = ''.join(fqn_tokens(spec['ids'], spec['root']))
    if spec['targ'] is not None:
        text += '<' + ''.join(fqn_tokens(spec['targ']['ids'], spec['targ']['root'])) + '>'
    return text


def c_function_body(rng, ret):
    pre = rng.choice(C_BODIES[:5])
    pre = pre + ('\n' if pre and not pre.endswith('\n') else '')
    if ret['ids'] == ['void']:
        return rng.choice(C_BODIES)
    if ret['postfix'] == '&':
        return pre + f'static {base_text(ret)} result{{}};\nreturn result;'
    if ret['postfix'] == '*':
        return pre + rng.choice(['return nullptr;', 'return {};'])
    if ret['ids'] == ['int'] and rng.random() < 0.5:
        return pre + 'return 0;'
    return pre + 'return {};' + rng.choice(['', '\n'])


def c_function(rng, name, scope):
    if rng.random() < 0.3:
        ret = {'ids': ['void'], 'root': False, 'targ': None, 'postfix': '', 'const': False,
               'default': None, 'via': 'list', 'base': 'void', 'shape': 'value'}
    else:
        ret = c_type(rng)
    prefix = rng.choice([None, None, 'static', 'virtual']) if scope else \
        rng.choice([None, None, 'static'])
    cav = 'const' if scope and prefix != 'static' and rng.random() < 0.4 else ''
    init = ''
    r = rng.random()
    if prefix == 'virtual' and r < 0.3:
        init = '0'
    elif prefix != 'virtual' and r < 0.15:
        init = 'delete'
    return {'kind': 'function', 'scope': scope, 'ret': ret, 'name': name, 'params': c_params(rng),
            'prefix': prefix, 'cav': cav, 'override': False, 'init': init,
            'contents': '' if init else c_function_body(rng, ret)}


def gen_class(rng, idx):
    scope = {'sc': rng.choice(['struct', 'class']), 'name': f'K{idx}'}
    spec = {'kind': 'class', 'idx': idx, 'scope': scope,
            'ns': [rng.choice(C_NS_IDS) for _ in range(rng.choice([0, 0, 1, 1, 2, 3]))],
            'members': [], 'ctors': [], 'dtor': None, 'funcs': [], 'free': []}
    for i in range(rng.randint(0, 4)):
        mtype = c_type(rng, shape=rng.choice(['value', 'value', 'ptr', 'const_ptr']))
        via = 'MemberVariable'
        if mtype['targ'] is None and not mtype['const']:
            via = {'': 'decl_var_t', '*': 'decl_var_ptr_t'}[mtype['postfix']]
        spec['members'].append({'type': mtype, 'name': f'm_{i}', 'via': rng.choice([via, 'MemberVariable'])})
    seen = set()
    for _ in range(rng.randint(0, 3)):
        params = c_params(rng, 3)
        key = c_sig_key(params)
        if key in seen:
            continue
        seen.add(key)
        r = rng.random()
        init = 'delete' if r < 0.15 else 'default' if (r < 0.45 and not params) else ''
        mil = []
        if not init:
            for mem in spec['members']:
                if rng.random() < 0.5:
                    lit = c_literal(rng, mem['type'])
                    mil.append(f'{mem["name"]}{{}}' if lit == '{}' else
                               f'{mem["name"]}{{{lit[1:-1]}}}' if lit.startswith('{') else
                               rng.choice([f'{mem["name"]}({lit})', f'{mem["name"]}{{{lit}}}']))
        spec['ctors'].append({'kind': 'ctor', 'scope': scope, 'explicit': rng.random() < 0.4,
                              'params': params, 'init': init, 'mil': mil,
                              'contents': '' if init else rng.choice(C_BODIES)})
    if rng.random() < 0.6:
        init = 'default' if rng.random() < 0.4 else ''
        spec['dtor'] = {'kind': 'dtor', 'scope': scope, 'override': False, 'init': init,
                        'contents': '' if init else rng.choice(C_BODIES)}
    for i in range(rng.randint(0, 4)):
        spec['funcs'].append(c_function(rng, f'F{i}', scope))
    for i in range(rng.choice([0, 0, 1, 2])):
        spec['free'].append(c_function(rng, f'ff{idx}_{i}', None))
    # layout: every item goes into one access specified section, in declaration order
    items = [['mv', i] for i in range(len(spec['members']))] + \
            [['ctor', i] for i in range(len(spec['ctors']))] + \
            ([['dtor', 0]] if spec['dtor'] else []) + \
            [['fn', i] for i in range(len(spec['funcs']))]
    sections, cur = [], None
    for item in items:
        if cur is None or rng.random() < 0.3:
            cur = {'access': rng.choice(['PUBLIC', 'PUBLIC', 'PRIVATE', 'PROTECTED'] +
                                        (['ANONYMOUS'] if not sections else [])), 'items': []}
            sections.append(cur)
        cur['items'].append(item)
    spec['layout'] = sections
    return spec


def class_descs(spec):
    return spec['ctors'] + ([spec['dtor']] if spec['dtor'] else []) + spec['funcs'] + spec['free']


def render_class(spec):
    """(text of the declaring namespace block, text of the defining namespace block)."""
    from dznpy import cpp_gen as G  # pylint: disable=import-outside-toplevel
    from dznpy.scoping import ns_ids_t  # pylint: disable=import-outside-toplevel
    from dznpy.text_gen import TextBlock  # pylint: disable=import-outside-toplevel
    scope = build_scope(spec['scope'])
    members = []
    for mem in spec['members']:
        mtype = mem['type']
        creator = {'decl_var_t': G.decl_var_t, 'decl_var_ptr_t': G.decl_var_ptr_t}.get(mem['via'])
        if creator:
            members.append(creator(build_fqn(mtype['ids'], mtype['root'], mtype['via']), mem['name']))
        else:
            members.append(G.MemberVariable(type=build_type(mtype), name=mem['name']))
    objs = {'mv': members, 'ctor': [build_desc(d, scope) for d in spec['ctors']],
            'dtor': [build_desc(spec['dtor'], scope)] if spec['dtor'] else [],
            'fn': [build_desc(d, scope) for d in spec['funcs']]}
    free = [build_desc(d) for d in spec['free']]
    body = TextBlock()
    for sec in spec['layout']:
        tb = TextBlock()
        for kind, i in sec['items']:
            tb += str(objs[kind][i]) if kind == 'mv' else objs[kind][i].as_decl
        body += str(G.AccessSpecifiedSection(G.AccessSpecifier[sec['access']], tb))
    scope.contents = body
    decl_tb = TextBlock([str(scope)] + [f.as_decl for f in free])
    def_tb = TextBlock()
    n_defs = 0
    for obj in objs['ctor'] + objs['dtor'] + objs['fn'] + free:
        text = obj.as_def
        if text:
            def_tb += [text, '']
            n_defs += 1
    nsi = ns_ids_t(list(spec['ns']))
    return str(G.Namespace(nsi, decl_tb)), str(G.Namespace(nsi, def_tb)), n_defs


def render_tu(specs):
    from dznpy import cpp_gen as G  # pylint: disable=import-outside-toplevel
    from dznpy.text_gen import TextBlock  # pylint: disable=import-outside-toplevel
    tu = TextBlock([str(G.SystemIncludes(['string', 'vector'])), '',
                    str(G.ProjectIncludes([PROJECT_HEADER])), ''])
    n_defs = 0
    for spec in specs:
        decl_text, def_text, n = render_class(spec)
        tu += [decl_text, '', def_text, '']
        n_defs += n
    return str(tu), n_defs


def compile_source(source, compiler):
    """-> (status, output); status in ok / error / timeout / missing / crashed."""
    work = tempfile.mkdtemp(prefix='dznpy-verif-C20-')
    try:
        with open(os.path.join(work, PROJECT_HEADER), 'w', encoding='utf-8') as fh:
            fh.write(PROJECT_HEADER_TEXT)
        path = os.path.join(work, 'tu.cc')
        with open(path, 'w', encoding='utf-8') as fh:
            fh.write(source)
        cmd = [compiler, '-std=c++17', '-fsyntax-only', '-Wall', '-I', work, path]
        try:
            proc = subprocess.run(cmd, capture_output=True, text=True, timeout=120, check=False)
        except FileNotFoundError:
            return 'missing', f'{compiler} not found'
        except subprocess.TimeoutExpired:
            return 'timeout', f'{compiler} exceeded 120 s'
        output = (proc.stderr or '').replace(work + os.sep, '')
        if proc.returncode == 0:
            return 'ok', output
        if proc.returncode < 0 or 'error' not in output:
            return 'crashed', f'exit {proc.returncode}: {output[-400:]}'
        return 'error', output
    finally:
        shutil.rmtree(work, ignore_errors=True)


def error_tag(output):
    for line in output.splitlines():
        match = re.search(r'\berror: (.*)', line)
        if match:
            msg = re.sub(r"‘[^’]*’|'[^']*'|\"[^\"]*\"", ' ', match.group(1))
            msg = re.sub(r'\[-[^\]]*\]', ' ', msg)
            words = re.findall(r'[A-Za-z]+', msg)
            return '-'.join(words)[:70] or 'unreadable-message'
    return 'no-error-line'


def check_class_texts(spec, viols, counts):
    """Part A oracle on every description that goes to the compiler as well."""
    for d in class_descs(spec):
        sub = check_desc(d)
        viols.extend(sub['violations'])
        counts['compiled_member_descriptions'] = counts.get('compiled_member_descriptions', 0) + 1


def eval_class(case):
    """Compile a single class specification (used for locating a culprit and for replay)."""
    spec, compiler = case['spec'], case.get('compiler', 'g++')
    res = {'violations': [], 'counts': {}, 'digest': common.digest(spec), 'nontrivial': True}
    source, _ = render_tu([spec])
    status, output = compile_source(source, compiler)
    res['counts'][f'compiler_invocations_{compiler}'] = 1
    if status == 'error':
        res['violations'].append({
            'mechanism': f'compile-error:{error_tag(output)}',
            'detail': {'compiler': compiler, 'class': spec['scope']['name'],
                       'first_errors': [ln for ln in output.splitlines() if 'error' in ln][:3]},
            'case': {'kind': 'class', 'spec': spec, 'compiler': compiler},
            'files': {'tu.cc': source, 'compiler.txt': output}})
    elif status != 'ok':
        res['inconclusive'] = f'compiler {status}: {output[:200]}'
    return res


def eval_tu(case):
    """One translation unit of CLASSES_PER_TU classes through each requested compiler."""
    seed, idx = case['seed'], case['tu']
    rng = random.Random(f'{PROP}:{seed}:tu:{idx}')
    specs = [gen_class(rng, idx * CLASSES_PER_TU + k) for k in range(case.get('n', CLASSES_PER_TU))]
    res = {'violations': [], 'counts': {}, 'digests': [], 'evaluations': len(specs)}
    counts = res['counts']
    for spec in specs:
        check_class_texts(spec, res['violations'], counts)
        res['digests'].append([common.digest(spec), True])
    source, n_defs = render_tu(specs)
    bal = T.brace_balance(source)
    if bal:
        res['violations'].append({'mechanism': f'composition-unbalanced:{bal}', 'detail': {},
                                  'case': case, 'files': {'tu.cc': source}})
    counts.update({'tus_compiled': 1, 'classes_compiled': len(specs), 'compiled_defs': n_defs,
                   'compiled_tu_lines': source.count('\n')})
    for compiler in case.get('compilers', ['g++']):
        status, output = compile_source(source, compiler)
        key = f'compiler_invocations_{compiler}'
        counts[key] = counts.get(key, 0) + 1
        if status == 'ok':
            continue
        if status != 'error':
            res['inconclusive'] = f'compiler {status}: {output[:200]}'
            continue
        found = 0
        for spec in specs:  # locate the culprit class(es)
            sub = eval_class({'spec': spec, 'compiler': compiler})
            counts[key] += 1
            counts['classes_recompiled_alone'] = counts.get('classes_recompiled_alone', 0) + 1
            if sub['violations']:
                res['violations'].extend(sub['violations'])
                found += 1
                if found >= 2:
                    break
        if not found:
            res['violations'].append({
                'mechanism': f'compile-error:{error_tag(output)}',
                'detail': {'compiler': compiler, 'class': 'only-in-composition',
                           'first_errors': [ln for ln in output.splitlines() if 'error' in ln][:3]},
                'case': case, 'files': {'tu.cc': source, 'compiler.txt': output}})
    res['sample'] = {'tu': idx, 'classes': len(specs), 'lines': source.count('\n'),
                     'first_class': source.split('\n\n')[2][:600] if idx == 0 else None}
    return res


# ---------------------------------------------------------------------------------------------
# driver
# ---------------------------------------------------------------------------------------------
def build_case(seed: int, stream: int) -> dict:
    """The stream-th generated case of parts A and B."""
    rng = random.Random(f'{PROP}:{seed}:{stream}')
    r = rng.random()
    if r < 0.70:
        return {'kind': 'desc', 'desc': gen_desc(rng)}
    if r < 0.92:
        return gen_block(rng)
    return gen_misc(rng)


def eval_case(case: dict) -> dict:
    """Evaluate one stored or generated case; every violation carries a self-contained case."""
    common.import_dznpy()
    if 'kind' not in case:
        case = build_case(case['seed'], case['stream'])
    kind = case['kind']
    if kind == 'desc':
        res = check_desc(case['desc'])
        res['sample'] = case['desc']
    elif kind == 'block':
        res = check_block(case)
    elif kind == 'misc':
        res = check_misc(case)
    elif kind == 'class':
        res = eval_class(case)
    elif kind == 'tu':
        res = eval_tu(case)
    else:
        raise ValueError(f'unknown case kind {kind}')
    return res


def eval_batch(seed, first, count):
    out = {'violations': [], 'counts': {}, 'digests': [], 'evaluations': count, 'sample': None}
    for stream in range(first, first + count):
        case = build_case(seed, stream)
        res = eval_case(case)
        for key, val in res['counts'].items():
            out['counts'][key] = out['counts'].get(key, 0) + val
        out['counts'][f'cases_{case["kind"]}'] = out['counts'].get(f'cases_{case["kind"]}', 0) + 1
        out['digests'].append([res['digest'], bool(res['nontrivial'])])
        out['violations'].extend(res['violations'][:4])
        if out['sample'] is None and case['kind'] == 'desc' and res['nontrivial'] \
                and res['counts'].get('decl_def_pairs_compared'):
            obj = build_desc(case['desc'])
            out['sample'] = {'description': case['desc'], 'as_decl': obj.as_decl,
                             'as_def': obj.as_def}
    return out


def _worker(arg):
    common.import_dznpy()
    if arg[0] == 'tu':
        _, seed, idx, compilers = arg
        return eval_tu({'kind': 'tu', 'seed': seed, 'tu': idx, 'compilers': compilers})
    _, seed, first, count = arg
    return eval_batch(seed, first, count)


def absorb_batch(run, res):
    if 'harness_error' in res:
        run.mark_inconclusive('harness error: ' + res['harness_error'][-400:])
        return
    if res.get('inconclusive'):
        run.mark_inconclusive(res['inconclusive'])
    run.evaluations += res['evaluations']
    for dig, nontrivial in res['digests']:
        if nontrivial:
            run.nontrivial.add(dig)
    if res.get('sample') is not None and len(run.samples) < run.max_samples:
        run.samples.append(common.jsonable(res['sample']))
    run.merge_counts(res['counts'])
    for v in res['violations']:
        run.violation(v['mechanism'], v.get('detail'), v.get('case'), v.get('files'),
                      v.get('klass'))


def main(tier: str) -> int:
    run = common.Run(PROP, tier)
    n_desc, n_classes = (5000, 200) if tier == 'quick' else (200000, 10000)
    n_tus = n_classes // CLASSES_PER_TU
    have_clang = shutil.which('clang++-14') is not None
    if shutil.which('g++') is None:
        run.mark_inconclusive('g++ not found')
    items = []
    for idx in range(n_tus):
        compilers = ['g++']
        if tier != 'quick' and idx % 10 == 0 and have_clang:
            compilers.append('clang++-14')
        items.append(('tu', run.seed, idx, compilers))
    items += [('batch', run.seed, first, min(BATCH, n_desc - first))
              for first in range(0, n_desc, BATCH)]
    run.require('decl_def_pairs_compared', 'defs_empty', 'defs_nonempty', 'descriptions_function',
                'descriptions_ctor', 'descriptions_dtor', 'blocks_namespace', 'blocks_struct',
                'blocks_class', 'blocks_section', 'namespace_empty_ids', 'misc_comparisons',
                'contents_form_comment', 'contents_form_headed', 'contents_form_nested',
                'contents_handed_over_then_filled', 'descriptions_completed_in_place_after_rendering',
                'default_parameter_list_extended_in_place',
                'namespace_named_next_to_a_sum_that_was_extended_in_place',
                'scope_blocks_made_from_a_subclass',
                'tus_compiled', 'classes_compiled', 'compiler_invocations_g++')
    for _item, res in run.pmap(_worker, items, chunksize=1, timeout=900):
        absorb_batch(run, res)
    return run.finish(
        rule='random Function/Constructor/Destructor descriptions (0-5 parameters with/without '
             'defaults, const/&/*/template argument/root-namespace prefix, prefixes, cav, override, '
             "'= default/0/delete', contents, member initialiser lists, struct/class/no owner) "
             'rendered by the real classes and read back by an independent token scanner; random '
             'namespace id lists (0-4) and TextBlock contents (0-6 lines, blank lines, built from '
             'a list, a string, pieces, nested blocks, with a header, or as a Comment; nested '
             f'braces) for the block classes; {CLASSES_PER_TU} random valid classes per translation '
             'unit through g++ -std=c++17 -fsyntax-only -Wall (thorough: every 10th also '
             'clang++-14); distinct = digest of the JSON description; non-trivial = at least one '
             'parameter, contents, qualifier, prefix or initialisation (blocks: ids or contents)',
        assumptions=['override is checked textually only (Struct/Class cannot name a base class)',
                     'what happens to whitespace-only content lines, to an empty include list, to '
                     'contents=None in the setter (ValueError) and to descriptions outside the '
                     'documented domain that are accepted is counted as unspecified, not judged',
                     'a compiler non-zero exit with an error line is the only compile verdict; '
                     'warnings are ignored; timeouts and missing compilers are inconclusive'])


def replay(path: str) -> int:
    return common.generic_replay(PROP, eval_case, path)
