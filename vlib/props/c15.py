"""C15 - the parser rejects malformed input only with its documented errors.

Monitor: exception classifier over structurally mutated documents.  Well-formed documents are
born in the independent IR (vlib.model), projected to JSON and then damaged by 1..3 structural
faults (delete / retype / retag / bad identifiers / ...).  Every mutant stays valid JSON text and
is handed to `DznJsonAst(text).process()`; the only allowed outcomes are a FileContents, a
`DznJsonError` or a `NamespaceIdsTypeError`.  A second oracle - computed on the mutated document
itself, never from what dznpy says - states whether the document holds a reachable out event with
a non-void reply or an out parameter; such a document must not parse.
"""
import hashlib
import json
import os
import random

from .. import common
from .. import model as M
from ..modelgen import GenOpts, ModelGen

PROP = 'C15'

PER_GROUP = 10          # mutants derived from one base document
OUT_SHARE = 2           # of which: dedicated single-fault out-event cases (20 %)
CANARY_OK = (50, 100, 200, 300, 400)      # nested namespaces that must simply parse
# values the parser skips (a stray list, the contents of an element of unknown class, an extra
# key), nested hundreds of levels deep: skipped means not looked into
CANARY_SKIPPED = [(kind, depth) for kind in ('stray-list', 'unknown-element', 'extra-key')
                  for depth in (300, 600, 900)]
CANARY_DEEP = (500, 600)        # 500: Python recursion; 600: beyond the JSON decoder's depth limit

KNOWN_CLASSES = ['root', 'namespace', 'interface', 'component', 'system', 'foreign', 'enum',
                 'subint', 'extern', 'import', 'file-name', 'scope_name', 'events', 'event',
                 'signature', 'formals', 'formal', 'types', 'fields', 'range', 'data', 'ports',
                 'port', 'instances', 'instance', 'bindings', 'binding', 'end-point', 'comment']
# text that means something to a formatter (%-style, str.format, string.Template, logging)
FORMAT_TEXTS = ['%', '%s', '%d items', 'coverage 100%', '%(name)s', '%%', '{}', '{0}', '{name}',
                '{', '}', '$x', '${x}', '\\', '\\N{bogus}', '%r %r', '{0.__class__}']
UNKNOWN_CLASSES = ['bogus', '', 'Root', 'interface ', 'behavior', 'function', 'name-space'] + \
    FORMAT_TEXTS
NONSTRING_TAGS = [None, 5, True, 1.5, ['root'], {}]
RETYPE_VALUES = [None, 7, -1, 2.5, True, False, 'text', '', [], [1, 'a'], [[]], {},
                 {'<class>': 'bogus'}, {'<class>': 'scope_name', 'ids': ['q']}]
BAD_IDS = ['', '1x', 'a b', 'a.b', 'a::b', 'é', 'x\n', ' a', 'a-b', 123, None, ['n'], True,
           1.5, {}]
BAD_DIRECTIONS = ['sideways', 'IN', 'Out', '', ' in', 'inout', 'provides', 'requires', 'in',
                  'out', 'both']
BAD_INJECTED = ['yes', '', 'Injected', 'injected ', 'true', True, False, None, 1, [], {}]
BAD_INTS = [1.5, 0.0, '3', '', True, False, 2 ** 70, -(2 ** 70), None, [], {}, 2 ** 63]
BAD_FIELDS = [3, None, [], {}, True, 1.5, ['a']]
# keys the parser reads: half of the untargeted faults are aimed at these
PARSER_KEYS = {'<class>', 'name', 'type_name', 'direction', 'formals', 'elements', 'ids',
               'signature', 'fields', 'range', 'from', 'to', 'value', 'ports', 'instances',
               'bindings', 'left', 'right', 'port_name', 'instance_name', 'events', 'types',
               'working-directory', 'comment', 'string', 'injected?'}

KIND_WEIGHTS = [('delete_key', 4), ('delete_elem', 2), ('retype', 5), ('retag', 3),
                ('bad_ids', 3), ('empty_ids', 1.5), ('dup_elem', 1), ('bad_direction', 1.5),
                ('bad_injected', 1), ('bad_range', 1), ('bad_fields', 1), ('wrap_root', 0.3)]


def make_opts(rng: random.Random) -> GenOpts:
    return GenOpts(
        max_ns_depth=rng.choice([0, 1, 2, 3, 4, 6]),
        max_ns_children=rng.choice([1, 2, 3]),
        multi_id_ns=rng.choice([0.0, 0.3, 0.6]),
        reopen_ns=rng.choice([0.0, 0.3, 0.6]),
        reuse_names=rng.choice([0.0, 0.4, 0.8]),
        n_externs=(0, 4), n_enums=(0, 3), n_interfaces=(1, 4), n_events=(0, 5),
        n_formals=(0, 4), n_components=(0, 3), n_systems=(0, 2), n_foreigns=(0, 2),
        n_subints=(0, 3), n_provides=(0, 3), n_requires=(0, 3), n_injected=(0, 2),
        noise=rng.choice([0.7, 1.0]), global_component=0.3)


# ---------------------------------------------------------------------------------------------
# document walkers (all iterative: documents may nest deeper than Python's recursion limit)
# ---------------------------------------------------------------------------------------------

def walk(box: list):
    """All dicts, lists and value slots of the document held in box[0], with readable paths."""
    dicts, lists, slots = [], [], [('$', box, 0)]
    stack = [('$', box[0])]
    while stack:
        path, node = stack.pop()
        if isinstance(node, dict):
            dicts.append((path, node))
            for key, val in node.items():
                sub = f'{path}.{key}'
                slots.append((sub, node, key))
                if isinstance(val, (dict, list)):
                    stack.append((sub, val))
        elif isinstance(node, list):
            lists.append((path, node))
            for idx, val in enumerate(node):
                sub = f'{path}[{idx}]'
                slots.append((sub, node, idx))
                if isinstance(val, (dict, list)):
                    stack.append((sub, val))
    return dicts, lists, slots


def namespace_depth(doc) -> int:
    """Maximum number of nested dicts tagged <class>=namespace on any path of the document."""
    best = 0
    stack = [(doc, 0)]
    while stack:
        node, depth = stack.pop()
        if isinstance(node, dict):
            if node.get('<class>') == 'namespace':
                depth += 1
                best = max(best, depth)
            stack.extend((v, depth) for v in node.values() if isinstance(v, (dict, list)))
        elif isinstance(node, list):
            stack.extend((v, depth) for v in node if isinstance(v, (dict, list)))
    return best


def reachable_events(doc):
    """(path, event) of every structurally sound event the parser must reach: events of an
    interface that sits in a chain root -> namespace* -> interface of recognised classes."""
    out = []
    if not isinstance(doc, dict) or doc.get('<class>') != 'root' \
            or not isinstance(doc.get('elements'), list):
        return out
    stack = [('$.elements', doc['elements'])]
    while stack:
        path, elements = stack.pop()
        for idx, elem in enumerate(elements):
            if not isinstance(elem, dict):
                continue
            here = f'{path}[{idx}]'
            cls = elem.get('<class>')
            if cls == 'namespace' and isinstance(elem.get('elements'), list):
                stack.append((here + '.elements', elem['elements']))
            elif cls == 'interface':
                events = elem.get('events')
                if isinstance(events, dict) and events.get('<class>') == 'events' \
                        and isinstance(events.get('elements'), list):
                    for jdx, evt in enumerate(events['elements']):
                        if _sound_event(evt):
                            out.append((f'{here}.events.elements[{jdx}]', evt))
    return out


def _sound_event(evt) -> bool:
    if not isinstance(evt, dict) or evt.get('<class>') != 'event':
        return False
    sig = evt.get('signature')
    if not isinstance(sig, dict) or sig.get('<class>') != 'signature':
        return False
    tname, formals = sig.get('type_name'), sig.get('formals')
    if not isinstance(tname, dict) or not isinstance(tname.get('ids'), list):
        return False
    return isinstance(formals, dict) and isinstance(formals.get('elements'), list)


def refusal_flags(doc) -> dict:
    """{'valued': [paths], 'out-param': [paths]} of out events that must be refused."""
    flags = {'valued': [], 'out-param': []}
    for path, evt in reachable_events(doc):
        if evt.get('direction') != 'out':
            continue
        sig = evt['signature']
        if sig['type_name']['ids'] != ['void']:
            flags['valued'].append(path)
        if any(isinstance(f, dict) and f.get('direction') == 'out'
               for f in sig['formals']['elements']):
            flags['out-param'].append(path)
    return flags


# ---------------------------------------------------------------------------------------------
# mutations
# ---------------------------------------------------------------------------------------------

def _show(val) -> str:
    return json.dumps(val, ensure_ascii=True)[:40]


def _pick_kind(rng: random.Random) -> str:
    total = sum(w for _k, w in KIND_WEIGHTS)
    roll = rng.random() * total
    for kind, weight in KIND_WEIGHTS:
        roll -= weight
        if roll <= 0:
            return kind
    return 'retype'


def _biased(rng: random.Random, slots):
    """Half of the time aim at a key the parser actually reads."""
    if rng.random() < 0.5:
        hot = [s for s in slots if s[2] in PARSER_KEYS]
        if hot:
            return rng.choice(hot)
    return rng.choice(slots)


def mutate_once(box: list, rng: random.Random):
    """Apply one random fault to box[0]; returns (kind, description)."""
    dicts, lists, slots = walk(box)
    kind = _pick_kind(rng)

    if kind == 'delete_key':
        cand = [(p, d) for p, d in dicts if d]
        if cand:
            hot = [(p, d, k) for p, d in cand for k in d if k in PARSER_KEYS]
            if hot and rng.random() < 0.6:
                path, dct, key = rng.choice(hot)
            else:
                path, dct = rng.choice(cand)
                key = rng.choice(list(dct))
            del dct[key]
            return kind, f'delete key {path}.{key}'
    elif kind == 'delete_elem':
        cand = [(p, l) for p, l in lists if l]
        if cand:
            path, lst = rng.choice(cand)
            idx = rng.randrange(len(lst))
            del lst[idx]
            return kind, f'delete element {path}[{idx}]'
    elif kind == 'retag':
        cand = [(p, d) for p, d in dicts if '<class>' in d]
        if cand:
            path, dct = rng.choice(cand)
            mode = rng.choice(['known', 'known', 'unknown', 'nonstring'])
            pool = {'known': KNOWN_CLASSES, 'unknown': UNKNOWN_CLASSES,
                    'nonstring': NONSTRING_TAGS}[mode]
            new = rng.choice([c for c in pool if c != dct['<class>']])
            old = dct['<class>']
            dct['<class>'] = new
            return kind, f'retag {path} {_show(old)} -> {_show(new)} ({mode})'
    elif kind in ('bad_ids', 'empty_ids'):
        cand = [(p, d) for p, d in dicts if isinstance(d.get('ids'), list)]
        if cand:
            path, dct = rng.choice(cand)
            ids = dct['ids']
            if kind == 'empty_ids':
                dct['ids'] = []
                return kind, f'empty {path}.ids'
            bad = rng.choice(BAD_IDS)
            if ids and rng.random() < 0.7:
                idx = rng.randrange(len(ids))
                ids[idx] = bad
                return kind, f'invalid identifier {path}.ids[{idx}] = {_show(bad)}'
            ids.insert(rng.randint(0, len(ids)), bad)
            return kind, f'invalid identifier inserted in {path}.ids: {_show(bad)}'
    elif kind == 'dup_elem':
        cand = [(p, l) for p, l in lists if l]
        if cand:
            path, lst = rng.choice(cand)
            idx = rng.randrange(len(lst))
            lst.insert(idx, json.loads(json.dumps(lst[idx])))
            return kind, f'duplicate element {path}[{idx}]'
    elif kind == 'bad_direction':
        cand = [(p, d) for p, d in dicts if 'direction' in d]
        if cand:
            path, dct = rng.choice(cand)
            new = rng.choice([v for v in BAD_DIRECTIONS if v != dct['direction']])
            dct['direction'] = new
            return kind, f'direction {path}.direction = {_show(new)}'
    elif kind == 'bad_injected':
        cand = [(p, d) for p, d in dicts if d.get('<class>') == 'port' or 'injected?' in d]
        if cand:
            path, dct = rng.choice(cand)
            new = rng.choice(BAD_INJECTED)
            dct['injected?'] = new
            return kind, f'injected {path}.injected? = {_show(new)}'
    elif kind == 'bad_range':
        cand = [(p, d) for p, d in dicts if 'from' in d or 'to' in d]
        if cand:
            path, dct = rng.choice(cand)
            key = rng.choice(['from', 'to'])
            new = rng.choice(BAD_INTS)
            dct[key] = new
            return kind, f'range bound {path}.{key} = {_show(new)}'
    elif kind == 'bad_fields':
        cand = [(p, d) for p, d in dicts
                if d.get('<class>') == 'fields' and isinstance(d.get('elements'), list)]
        if cand:
            path, dct = rng.choice(cand)
            new = rng.choice(BAD_FIELDS)
            dct['elements'].insert(rng.randint(0, len(dct['elements'])), new)
            return kind, f'non-string field in {path}.elements: {_show(new)}'
    elif kind == 'wrap_root':
        box[0] = [box[0]]
        return kind, 'wrap the root in a list'

    # retype (also the fallback when the chosen kind has no target in this document)
    path, container, key = _biased(rng, slots)
    new = json.loads(json.dumps(rng.choice(RETYPE_VALUES)))
    container[key] = new
    return 'retype', f'retype {path} = {_show(new)}'


def mutate_out_event(doc, rng: random.Random):
    """Exactly one fault that turns one reachable event of a WELL-FORMED document into an out
    event with a reply value or an out parameter.  Returns (flag, description) or None."""
    options = []
    for path, evt in reachable_events(doc):
        sig = evt['signature']
        formals = sig['formals']['elements']
        valued = sig['type_name']['ids'] != ['void']
        has_out = any(isinstance(f, dict) and f.get('direction') == 'out' for f in formals)
        if evt.get('direction') == 'out' and not valued and not has_out:
            options.append(('reply', path, evt))
            options.append(('add_formal', path, evt))
            if formals:
                options.append(('formal_dir', path, evt))
        elif evt.get('direction') == 'in' and (valued or has_out):
            options.append(('flip', path, evt))
    if not options:
        return None
    how, path, evt = rng.choice(options)
    sig = evt['signature']
    if how == 'reply':
        new = rng.choice([['bool'], ['int'], ['Result'], ['ns', 'Enum'], ['void', 'void'],
                          ['Void'], ['_void']])
        sig['type_name']['ids'] = new
        return 'valued', f'out event {path}: reply ids = {_show(new)}'
    if how == 'formal_dir':
        idx = rng.randrange(len(sig['formals']['elements']))
        sig['formals']['elements'][idx]['direction'] = 'out'
        return 'out-param', f'out event {path}: formal [{idx}] direction = "out"'
    if how == 'add_formal':
        formal = {'<class>': 'formal', 'name': 'extra',
                  'type_name': {'<class>': 'scope_name', 'ids': ['T']}, 'direction': 'out'}
        pos = rng.randint(0, len(sig['formals']['elements']))
        sig['formals']['elements'].insert(pos, formal)
        return 'out-param', f'out event {path}: out formal inserted at [{pos}]'
    evt['direction'] = 'out'
    valued = sig['type_name']['ids'] != ['void']
    return ('valued' if valued else 'out-param'), f'in event {path}: direction = "out"'


# ---------------------------------------------------------------------------------------------
# documents that are not mutants of a model
# ---------------------------------------------------------------------------------------------

def _sn(*ids):
    return {'<class>': 'scope_name', 'ids': list(ids)}


def fixed_documents() -> list:
    """Non-object roots and tiny hand-made documents: (label, value)."""
    root = lambda elements, **kw: dict({'<class>': 'root', 'elements': elements,  # noqa: E731
                                        'working-directory': '/w'}, **kw)
    evt = lambda d, ids, fdir=None: {  # noqa: E731
        '<class>': 'event', 'name': 'e', 'direction': d,
        'signature': {'<class>': 'signature', 'type_name': _sn(*ids),
                      'formals': {'<class>': 'formals', 'elements': [] if fdir is None else [
                          {'<class>': 'formal', 'name': 'p', 'type_name': _sn('T'),
                           'direction': fdir}]}}}
    itf = lambda events: {'<class>': 'interface', 'name': _sn('I'),  # noqa: E731
                          'types': {'<class>': 'types', 'elements': []},
                          'events': {'<class>': 'events', 'elements': events}}
    docs = [(f'root:{json.dumps(v)[:20]}', v) for v in
            [None, 0, 1, -3, 2.5, 1e30, True, False, '', 'root', '{}', [], [1], [None],
             [[]], [{}], {}, {'a': 1}, {'<class>': None}, {'<class>': 'root'},
             {'<class>': 'Root'}, {'<class>': ['root']}, 2 ** 70]]
    for text in FORMAT_TEXTS:
        docs.append((f'unknown class {text!r}', root([{'<class>': text}])))
        docs.append((f'unknown class {text!r} in a namespace',
                     root([{'<class>': 'namespace', 'name': _sn('n'),
                            'elements': [{'<class>': text}, text]}])))
        docs.append((f'working directory {text!r}',
                     {'<class>': 'root', 'elements': [], 'working-directory': text}))
    docs += [
        ('root without elements', {'<class>': 'root', 'working-directory': '/w'}),
        ('root without working-directory', {'<class>': 'root', 'elements': []}),
        ('root elements null', {'<class>': 'root', 'elements': None, 'working-directory': ''}),
        ('root elements dict', {'<class>': 'root', 'elements': {}, 'working-directory': ''}),
        ('root wd int', {'<class>': 'root', 'elements': [], 'working-directory': 3}),
        ('empty root', root([])),
        ('comment wrong type', root([], comment='text')),
        ('comment wrong class', root([], comment={'<class>': 'remark', 'string': 's'})),
        ('comment string int', root([], comment={'<class>': 'comment', 'string': 5})),
        ('comment ok', root([], comment={'<class>': 'comment', 'string': 's'})),
        ('non-dict elements', root([None, 1, 'x', [], True, 2.5])),
        ('element without class', root([{}])),
        ('element class null', root([{'<class>': None}])),
        ('element class list', root([{'<class>': ['enum']}])),
        ('element class dict', root([{'<class>': {'<class>': 'enum'}}])),
        ('unknown class', root([{'<class>': 'bogus'}])),
        ('formatter text as stray elements', root(list(FORMAT_TEXTS))),
        ('formatter text as comment', root([], comment={'<class>': 'comment',
                                                          'string': ' '.join(FORMAT_TEXTS)})),
        ('bare classes', root([{'<class>': c} for c in KNOWN_CLASSES])),
        ('namespace no name', root([{'<class>': 'namespace', 'elements': []}])),
        ('namespace no elements', root([{'<class>': 'namespace', 'name': _sn('n')}])),
        ('namespace empty ids', root([{'<class>': 'namespace', 'name': _sn(), 'elements': []}])),
        ('namespace ids string', root([{'<class>': 'namespace', 'elements': [],
                                        'name': {'<class>': 'scope_name', 'ids': 'n'}}])),
        ('namespace ids dotted', root([{'<class>': 'namespace', 'elements': [],
                                        'name': _sn('a.b')}])),
        ('namespace ids mixed', root([{'<class>': 'namespace', 'elements': [],
                                       'name': _sn('a', 1, None)}])),
        ('namespace in namespace with junk', root([{'<class>': 'namespace', 'name': _sn('a'),
                                                    'elements': [{'<class>': 'namespace',
                                                                  'name': _sn('b'),
                                                                  'elements': [3, {}]}]}])),
        ('enum fields non-strings', root([{'<class>': 'enum', 'name': _sn('E'),
                                           'fields': {'<class>': 'fields',
                                                      'elements': [1, None, {}]}}])),
        ('subint bool bounds', root([{'<class>': 'subint', 'name': _sn('S'),
                                      'range': {'<class>': 'range', 'from': True,
                                                'to': False}}])),
        ('subint float bounds', root([{'<class>': 'subint', 'name': _sn('S'),
                                       'range': {'<class>': 'range', 'from': 1.0, 'to': 2}}])),
        ('subint huge bounds', root([{'<class>': 'subint', 'name': _sn('S'),
                                      'range': {'<class>': 'range', 'from': -(2 ** 80),
                                                'to': 2 ** 80}}])),
        ('extern value string', root([{'<class>': 'extern', 'name': _sn('X'), 'value': 'int'}])),
        ('interface ok', root([itf([evt('in', ['bool'], 'out'), evt('out', ['void'], 'in')])])),
        ('out event valued', root([itf([evt('out', ['bool'])])])),
        ('out event out-param', root([itf([evt('out', ['void'], 'out')])])),
        ('out event both', root([{'<class>': 'namespace', 'name': _sn('n'),
                                  'elements': [itf([evt('in', ['void']),
                                                    evt('out', ['int'], 'out')])]}])),
        ('out event empty reply', root([itf([evt('out', [])])])),
        ('out event inout param', root([itf([evt('out', ['void'], 'inout')])])),
        ('types with junk', root([{'<class>': 'interface', 'name': _sn('I'),
                                   'types': {'<class>': 'types', 'elements': [None]},
                                   'events': {'<class>': 'events', 'elements': []}}])),
        ('types with classless dict', root([{'<class>': 'interface', 'name': _sn('I'),
                                             'types': {'<class>': 'types', 'elements': [{}]},
                                             'events': {'<class>': 'events', 'elements': []}}])),
        ('port injected bool', root([{'<class>': 'component', 'name': _sn('C'), 'ports': {
            '<class>': 'ports', 'elements': [{'<class>': 'port', 'name': 'p',
                                              'type_name': _sn('I'), 'direction': 'requires',
                                              'formals': {'<class>': 'formals', 'elements': []},
                                              'injected?': True}]}}])),
        ('system binding junk', root([{'<class>': 'system', 'name': _sn('S'),
                                       'ports': {'<class>': 'ports', 'elements': []},
                                       'instances': {'<class>': 'instances', 'elements': [7]},
                                       'bindings': {'<class>': 'bindings', 'elements': []}}])),
        ('wrapped root', [root([])]),
    ]
    return docs


def skipped_canary_text(kind: str, depth: int, bad_out_event: bool = False) -> str:
    """A small well-formed document that holds one value nested `depth` levels deep at a place
    the parser skips; with `bad_out_event` an interface next to it that must be refused."""
    deep = '[' * depth + ']' * depth
    itf = ('{"<class>":"interface","name":{"<class>":"scope_name","ids":["I"]},'
           '"types":{"<class>":"types","elements":[]},"events":{"<class>":"events","elements":['
           '{"<class>":"event","name":"e","direction":"out","signature":{"<class>":"signature",'
           '"type_name":{"<class>":"scope_name","ids":["%s"]},"formals":{"<class>":"formals",'
           '"elements":[]}}}]}}' % ('bool' if bad_out_event else 'void'))
    ext = ('{"<class>":"extern","name":{"<class>":"scope_name","ids":["x"]},'
           '"value":{"<class>":"data","value":"int"}%s}' % (',"extra":' + deep if kind == 'extra-key' else ''))
    extra = {'stray-list': deep, 'unknown-element': '{"<class>":"bogus","payload":' + deep + '}',
             'extra-key': None}[kind]
    elements = [e for e in (ext, extra, itf) if e]
    return '{"<class>":"root","working-directory":"/w","elements":[' + ','.join(elements) + ']}'


def canary_text(depth: int) -> str:
    """`depth` nested single-identifier namespaces with one extern at the bottom, built as text
    (json.dumps itself would recurse)."""
    pre = ''.join('{"<class>":"namespace","name":{"<class>":"scope_name","ids":["n%d"]},'
                  '"elements":[' % i for i in range(depth))
    bottom = ('{"<class>":"extern","name":{"<class>":"scope_name","ids":["x"]},'
              '"value":{"<class>":"data","value":"int"}}')
    return ('{"<class>":"root","working-directory":"/w","elements":[' + pre + bottom
            + ']}' * depth + ']}')


# ---------------------------------------------------------------------------------------------
# evaluation
# ---------------------------------------------------------------------------------------------

_REAL = {}


def _under_src(filename: str) -> bool:
    hit = _REAL.get(filename)
    if hit is None:
        src = os.path.realpath(common.DZNPY_SRC)
        hit = _REAL[filename] = os.path.realpath(filename).startswith(src + os.sep)
    return hit


def innermost_dznpy(exc: BaseException):
    """file:function of the innermost traceback frame that lies in the dznpy working tree."""
    where = None
    tb = exc.__traceback__
    while tb is not None:
        code = tb.tb_frame.f_code
        if _under_src(code.co_filename):
            where = f'{os.path.basename(code.co_filename)}:{code.co_name}'
        tb = tb.tb_next
    return where


class AcceptedOnRetry(Exception):
    """process() refused the document, and the same parser object asked again returned contents."""


def run_parse(text: str, route: str, again: int = 0, repair: bool = False, verbose=None):
    """Parse; with `again`, the same parser object is asked again after a refusal: a document that
    holds an invalid out event must be refused every time."""
    from dznpy.json_ast import DznJsonAst, DznJsonError  # pylint: disable=import-outside-toplevel
    from dznpy.scoping import NamespaceIdsTypeError      # pylint: disable=import-outside-toplevel
    data = text.encode('utf-8') if route == 'bytes' else text
    with common.quiet():
        inst = DznJsonAst(data, verbose=common.verbose_for(text) if verbose is None else verbose)
        try:
            return inst.process()
        except (DznJsonError, NamespaceIdsTypeError) as first:
            for attempt in range(again):
                try:
                    inst.process()
                except (DznJsonError, NamespaceIdsTypeError):
                    continue
                raise AcceptedOnRetry(f'attempt {attempt + 2}') from first
            if repair:
                # the caller mends the loaded document in place (parser.ast) - every out-event
                # gets a void reply and in-parameters only - and parses again; after that the
                # original text, given to a new parser, is still the document it was
                _mend_out_events(inst.ast)
                try:
                    inst.process()
                except (DznJsonError, NamespaceIdsTypeError):
                    pass
                try:
                    DznJsonAst(data).process()
                except (DznJsonError, NamespaceIdsTypeError):
                    raise first from None
                raise AcceptedOnRetry('by a new parser, after an earlier copy was mended in place') \
                    from first
            raise


def _mend_out_events(node):
    if isinstance(node, dict):
        if node.get('<class>') == 'event' and node.get('direction') == 'out':
            sig = node.get('signature')
            if isinstance(sig, dict):
                tname = sig.get('type_name')
                if isinstance(tname, dict) and isinstance(tname.get('ids'), list):
                    tname['ids'][:] = ['void']
                formals = sig.get('formals')
                if isinstance(formals, dict) and isinstance(formals.get('elements'), list):
                    for formal in formals['elements']:
                        if isinstance(formal, dict) and formal.get('direction') in ('out', 'inout'):
                            formal['direction'] = 'in'
        for val in list(node.values()):
            _mend_out_events(val)
    elif isinstance(node, list):
        for val in node:
            _mend_out_events(val)


def judge(text: str, route: str, doc, case: dict, mutations: list, ns_depth=None) -> dict:
    """Parse `text` and classify the outcome.  `doc` is the document as a Python value (None
    with ns_depth given for the canaries, whose value is never materialised)."""
    from dznpy.ast import FileContents                    # pylint: disable=import-outside-toplevel
    from dznpy.json_ast import DznJsonError               # pylint: disable=import-outside-toplevel
    from dznpy.scoping import NamespaceIdsTypeError       # pylint: disable=import-outside-toplevel
    res = {'violations': [], 'counts': {}}
    counts = res['counts']
    outcome = None
    again = 2 if (ns_depth is None and (case.get('must_refuse') or
                                        len(text) % 4 == 0)) else 0
    repair = bool(again and case.get('must_refuse') and len(text) % 2 == 0)
    if repair:
        counts['refused_documents_mended_in_place_then_reparsed'] = 1
    try:
        if case.get('verbose') is not None:
            counts[f'parsed_with_verbose_{bool(case["verbose"])}'] = 1
        got = run_parse(text, route, again, repair, case.get('verbose'))
    except AcceptedOnRetry as exc:
        counts['retries_on_same_parser'] = 1
        flags = refusal_flags(doc)
        outcome = 'DznJsonError'
        if any(flags.values()):
            res['violations'].append({
                'mechanism': 'out-event-accepted:on-retry-of-the-same-parser',
                'detail': {'attempt': str(exc), 'mutations': mutations, 'route': route,
                           'flags': {k: v[:3] for k, v in flags.items() if v}},
                'case': case})
        else:
            counts['unspecified_refused_document_accepted_on_retry'] = 1
    except DznJsonError as exc:
        outcome = 'DznJsonError'
        if again:
            counts['retries_on_same_parser'] = 1
        ctx = str(exc).split(':', 1)[0]
        counts['rejected_in_' + (ctx if ctx.startswith('parse_') else 'other')] = 1
        res['message'] = str(exc)[:200]
    except NamespaceIdsTypeError as exc:
        outcome = 'NamespaceIdsTypeError'
        res['message'] = str(exc)[:200]
    except BaseException as exc:  # pylint: disable=broad-except
        if isinstance(exc, (KeyboardInterrupt, SystemExit)):
            raise
        info = common.classify_exception(exc)
        inner = innermost_dznpy(exc) or info['where']
        if info['type'] == 'JSONDecodeError' and info['where'].split(':')[-1] in ('__init__',
                                                                                  'load_file'):
            # the JSON decoder itself refused the text (e.g. its nesting limit): the document
            # never reached the parser, which is what the property is about - counted only
            counts['outcome_decoder_refused'] = 1
            counts['route_' + route] = 1
            res['outcome'] = 'decoder_refused'
            return res
        outcome = 'other'
        detail = {'type': info['type'], 'where': info['where'], 'innermost_dznpy': inner,
                  'message': info['message'], 'class': info['class'], 'mutations': mutations,
                  'namespace_depth': namespace_depth(doc) if ns_depth is None else ns_depth,
                  'route': route}
        res['violations'].append({'mechanism': f'internal-exception:{info["type"]}@{inner}',
                                  'detail': detail, 'case': case})
        res['message'] = info['message'][:200]
    else:
        if isinstance(got, FileContents):
            outcome = 'returned'
            flags = refusal_flags(doc) if ns_depth is None else {}
            for flag, paths in flags.items():
                if paths:
                    res['violations'].append({
                        'mechanism': f'out-event-accepted:{flag}',
                        'detail': {'events': paths[:5], 'mutations': mutations, 'route': route,
                                   'namespace_depth': namespace_depth(doc)},
                        'case': case})
        else:
            outcome = 'other'
            res['violations'].append({
                'mechanism': f'returned-non-filecontents:{type(got).__name__}',
                'detail': {'type': type(got).__name__, 'mutations': mutations, 'route': route},
                'case': case})
    counts['outcome_' + outcome] = 1
    counts['route_' + route] = 1
    res['outcome'] = outcome
    return res


def eval_case(case: dict) -> dict:
    """case = {'doc': value, 'mutations': [...], 'route', 'base_digest'?, 'must_refuse'?}
           | {'canary_depth': n, 'route'}"""
    common.import_dznpy()
    route = case.get('route') or 'str'
    if 'canary_kind' in case:
        depth, kind = int(case['canary_depth']), case['canary_kind']
        bad = bool(case.get('bad_out_event'))
        text = skipped_canary_text(kind, depth, bad)
        mutations = [f'a value nested {depth} levels deep where the parser skips it ({kind})']
        res = judge(text, route, None, case, mutations, ns_depth=0)
        res['counts']['deep_skipped_values_checked'] = 1
        if bad:
            res['counts']['deep_skipped_values_next_to_an_invalid_out_event'] = 1
            if res['outcome'] == 'returned':
                res['violations'].append({
                    'mechanism': 'out-event-accepted:valued-out-event',
                    'detail': {'mutations': mutations, 'route': route}, 'case': case})
        res['digest'] = f'canary:{kind}:{depth}:{bad}:{route}'
        res['nontrivial'] = True
        res['sample'] = {'canary_kind': kind, 'canary_depth': depth, 'outcome': res['outcome']}
        return res
    if 'canary_depth' in case:
        depth = int(case['canary_depth'])
        text = canary_text(depth)
        mutations = [f'{depth} nested namespaces around one extern']
        res = judge(text, route, None, case, mutations, ns_depth=depth)
        res['counts']['canary_depths_checked'] = 1
        res['counts'][f'canary_{depth}_{res["outcome"]}'] = 1
        res['digest'] = f'canary:{depth}:{route}'
        res['nontrivial'] = res['outcome'] == 'returned'
        res['sample'] = {'canary_depth': depth, 'outcome': res['outcome'],
                         'message': res.get('message')}
        return res

    doc = case['doc']
    mutations = list(case.get('mutations') or [])
    text = json.dumps(doc, ensure_ascii=(route != 'bytes'), allow_nan=False)
    res = judge(text, route, doc, case, mutations)
    counts = res['counts']
    must = case.get('must_refuse')
    if must:
        flags = refusal_flags(doc)
        if not flags.get(must):
            raise AssertionError(f'harness: refusal predicate does not see the {must} out event '
                                 f'made by {mutations}')
        counts['outevent_refusals_checked'] = 1
        counts[f'outevent_{must}_{res["outcome"]}'] = 1
        if 'Out events' in (res.get('message') or ''):
            counts['outevent_refused_by_event_check'] = 1
    elif res['outcome'] != 'returned' and any(refusal_flags(doc).values()):
        counts['mutants_with_refusable_out_event_rejected_somehow'] = 1
    dig = hashlib.sha256(json.dumps(doc, sort_keys=True).encode()).hexdigest()[:16]
    res['digest'] = dig
    differs = case.get('base_digest') is None or dig != case['base_digest']
    if not differs:
        counts['mutant_equals_base'] = 1
    res['nontrivial'] = differs and res['outcome'] != 'other'
    for kind in case.get('kinds') or []:
        counts['mut_' + kind] = counts.get('mut_' + kind, 0) + 1
    counts[f'faults_{len(mutations)}'] = 1
    res['sample'] = {'mutations': mutations, 'outcome': res['outcome'],
                     'message': res.get('message')}
    return res


# ---------------------------------------------------------------------------------------------
# case construction
# ---------------------------------------------------------------------------------------------

def build_group(seed: int, group: int, size: int = PER_GROUP) -> list:
    """One well-formed base document and `size` damaged copies of it."""
    rng = random.Random(f'{PROP}:{seed}:g{group}')
    gen = ModelGen(rng, make_opts(rng)).generate()
    base = M.to_json(gen.model, decorate=rng.random() < 0.3, rng=rng)
    base_text = json.dumps(base)
    base_digest = hashlib.sha256(json.dumps(base, sort_keys=True).encode()).hexdigest()[:16]
    cases = []
    for j in range(size):
        doc = json.loads(base_text)
        route = 'bytes' if (group + j) % 2 else 'str'
        case = {'route': route, 'base_digest': base_digest, 'group': group, 'j': j}
        if j < OUT_SHARE:
            made = mutate_out_event(doc, rng)
            if made is not None:
                case.update(doc=doc, mutations=[made[1]], kinds=['out_event_' + made[0]],
                            must_refuse=made[0])
                cases.append(case)
                continue
        box = [doc]
        kinds, descr = [], []
        for _ in range(rng.choice([1, 1, 2, 2, 3])):
            kind, text = mutate_once(box, rng)
            kinds.append(kind)
            descr.append(text)
        case.update(doc=box[0], mutations=descr, kinds=kinds)
        cases.append(case)
    return [{'doc': base, 'mutations': [], 'route': 'str', 'base_digest': None,
             'is_base': True, 'group': group, 'j': -1}] + cases


def _slim(res: dict, keep_sample: bool) -> dict:
    out = {k: res[k] for k in ('digest', 'nontrivial', 'counts', 'violations') if k in res}
    if keep_sample:
        out['sample'] = res.get('sample')
    return out


def _worker(item):
    what = item[0]
    out = []
    if what == 'variety':
        # long use with variety: hundreds of small well-formed documents, each with identifiers
        # of its own, parsed one after the other in this process (a tool walking over a tree of
        # model files) - some five thousand distinct identifiers in all
        agg = {'violations': [], 'counts': {}, 'digest': f'variety:{item[1]}', 'nontrivial': True}
        for k in range(item[2]):
            names = [f'{item[1]}v{k}n{j}' for j in range(12)]
            doc = {'<class>': 'root', 'working-directory': '/w', 'elements': [
                {'<class>': 'namespace', 'name': {'<class>': 'scope_name', 'ids': names[:2]},
                 'elements': [
                     {'<class>': 'enum', 'name': {'<class>': 'scope_name', 'ids': [names[2]]},
                      'fields': {'<class>': 'fields', 'elements': names[3:6]}},
                     {'<class>': 'extern', 'name': {'<class>': 'scope_name', 'ids': [names[6]]},
                      'value': {'<class>': 'data', 'value': 'int'}},
                     {'<class>': 'subint', 'name': {'<class>': 'scope_name', 'ids': [names[7]]},
                      'range': {'<class>': 'range', 'from': 0, 'to': k}}]}]}
            case = {'doc': doc, 'mutations': [f'document {k} of a series with fresh identifiers'],
                    'route': 'str'}
            res = eval_case(case)
            agg['counts']['documents_of_a_long_series_with_fresh_identifiers'] = \
                agg['counts'].get('documents_of_a_long_series_with_fresh_identifiers', 0) + 1
            for v in res['violations'][:1]:
                if not agg['violations']:
                    agg['violations'].append(v)
        out.append(({'variety': item[1]}, agg))
    elif what == 'skipped':
        for bad in (False, True):
            case = {'canary_kind': item[1], 'canary_depth': item[2], 'route': item[3],
                    'bad_out_event': bad}
            out.append((case, _slim(eval_case(case), False)))
    elif what == 'canary':
        case = {'canary_depth': item[1], 'route': item[2]}
        out.append((case, _slim(eval_case(case), item[1] in (200, 500))))
    elif what == 'fixed':
        for idx, (label, value) in enumerate(fixed_documents()):
            # quiet and talkative: what a parser prints about a document is not an outcome
            for verbose in (False, True):
                case = {'doc': value, 'mutations': [f'hand-made: {label}'], 'kinds': ['fixed'],
                        'route': 'bytes' if idx % 2 else 'str', 'verbose': verbose}
                res = eval_case(case)
                res['counts']['fixed_documents'] = 1
                out.append(({'fixed': label, 'verbose': verbose}, _slim(res, idx < 1)))
    else:
        _w, seed, group = item
        cases = build_group(seed, group)
        base_res = eval_case(cases[0])
        base_ok = base_res['outcome'] == 'returned' and not base_res['violations']
        stub = {'seed': seed, 'group': group}
        agg = {'base_documents': 1, 'base_parsed': int(base_ok)}
        out.append((dict(stub, j=-1), {'digest': base_res['digest'], 'nontrivial': False,
                                       'counts': agg, 'violations': []}))
        for case in cases[1:]:
            if case.get('must_refuse') and not base_ok:
                case.pop('must_refuse')       # the single-fault argument needs a parsing base
            res = eval_case(case)
            out.append((dict(stub, j=case['j']), _slim(res, group < 2 and case['j'] in (0, 5))))
    return out


def main(tier: str) -> int:
    run = common.Run(PROP, tier, level='fault_enumeration')
    n_mutants = 20000 if tier == 'quick' else 500000
    groups = n_mutants // PER_GROUP
    items = [('canary', d, 'str') for d in CANARY_OK + CANARY_DEEP] + [('fixed',)]
    items += [('variety', 'a', 450), ('variety', 'b', 450)]
    items += [('skipped', kind, depth, 'bytes' if depth == 600 else 'str')
              for kind, depth in CANARY_SKIPPED]
    items += [('group', run.seed, g) for g in range(groups)]
    run.require('outcome_returned', 'outcome_DznJsonError', 'outcome_NamespaceIdsTypeError',
                'outevent_refusals_checked', 'canary_depths_checked', 'base_parsed',
                'fixed_documents', 'deep_skipped_values_checked',
                'documents_of_a_long_series_with_fresh_identifiers', 'parsed_with_verbose_True', 'parsed_with_verbose_False',
                'refused_documents_mended_in_place_then_reparsed')
    for _item, out in run.pmap(_worker, items, chunksize=4 if tier == 'quick' else 25):
        if isinstance(out, dict):          # harness error of a whole work item
            common.absorb(run, {}, out)
            continue
        for case, res in out:
            common.absorb(run, case, res)
    run.extra['mutants_requested'] = n_mutants
    return run.finish(
        rule='well-formed IR models (C05 options, noise on) -> JSON -> 1..3 structural faults '
             '(delete key/element, retype to null/int/float/bool/str/list/dict, retag <class> to '
             'known/unknown/non-string, invalid or empty ids, duplicated elements, bogus '
             'direction / injected? / range bounds / enum fields, wrapped root), 20 % of the '
             'mutants being a single fault that makes one reachable out event valued or gives it '
             'an out parameter; plus non-object roots, hand-made minimal documents and nested-'
             'namespace canaries (50..600 levels); each parsed via DznJsonAst(str|bytes).process(); '
             'distinct = digest of the mutated document; non-trivial = differs from its base and '
             'was parsed or refused with a documented error',
        assumptions=['every document is valid JSON text (json.dumps with allow_nan=False, no '
                     'lone surrogates, no numbers beyond the double range); text that is not '
                     'JSON is outside the property',
                     'the refusal predicate follows root -> namespace* -> interface -> events '
                     'by <class> tags, i.e. the reachability the parser documents',
                     'the interpreter recursion limit is left at its default (1000) and the '
                     'canaries run ~12 frames deep in a worker process'])


def replay(path: str) -> int:
    return common.generic_replay(PROP, eval_case, path)
