"""C07 - names in generated code denote the declaration Dezyne's scoping rules select.

Monitors: (1) online observer on every find_fqn call made while a shell is built (the
function is wrapped from the harness where the builder modules bound it), compared with a
set-comprehension resolver over the IR; (2) build-level oracle: a reference (port type, event
parameter type of a rerouted port, claim reply enum) is re-spelled in every way some
declaration could be spelled; the reference resolver says "unique and of the right kind" or
not, and the build must succeed with exactly that declaration's C++ type in the emitted text -
or fail; (3) a sample is compiled against a mock model header in which every declaration is a
distinct, non-convertible C++ type.
"""
import copy
import os
import random
import re
import shutil

from .. import cfggen
from .. import common
from .. import cxxgen
from .. import cxxlab
from .. import model as M
from .. import refcfg
from .. import shellbuild

PROP = 'C07'
_OBS = {'calls': [], 'decls': None}


def install_observer():
    """Wrap find_fqn where the builder modules bound it (from ... import find_fqn)."""
    import dznpy.adv_shell as adv  # pylint: disable=import-outside-toplevel
    import dznpy.adv_shell.core.processing as proc  # pylint: disable=import-outside-toplevel
    import dznpy.ast_view as ast_view  # pylint: disable=import-outside-toplevel
    if getattr(ast_view, '_verif_c07', False):
        return
    ast_view._verif_c07 = True
    orig = ast_view.find_fqn
    kinds = {'Component': 'components', 'Enum': 'enums', 'Extern': 'externs',
             'Foreign': 'foreigns', 'Interface': 'interfaces', 'SubInt': 'subints',
             'System': 'systems'}

    def observed(fct, ns_ids, as_of_inner_scope=None):
        res = orig(fct, ns_ids, as_of_inner_scope)
        _OBS['calls'].append((list(ns_ids.items),
                              None if as_of_inner_scope is None else list(as_of_inner_scope.items),
                              sorted((kinds[type(i).__name__], '.'.join(i.fqn.items))
                                     for i in res.items)))
        return res
    for mod in (adv, proc, ast_view):
        if getattr(mod, 'find_fqn', None) is orig:
            setattr(mod, 'find_fqn', observed)


def spelling_pool(decls, rng: random.Random, limit: int = 14):
    pool = set()
    for _k, fqn, _o in decls:
        for i in range(len(fqn)):
            pool.add(tuple(fqn[i:]))
    pool = sorted(pool)
    rng.shuffle(pool)
    return [list(p) for p in pool[:limit]]


def sites(gen, ent, enc, info, mapping):
    """Reference sites whose resolution the builder performs."""
    out = []
    _fqn, comp, node = ent
    mc = enc.get('multiclient')
    for idx, port in enumerate(comp.ports):
        if mc and mc['port'] == port.name:
            continue   # another interface would invalidate the multi-client settings
        out.append({'site': 'port-type', 'port_index': idx, 'scope': list(node.fqn),
                    'kind': 'interfaces'})
    for port in comp.ports:
        if port.injected or mapping.get(port.name) != 'MTS':
            continue
        ifqn = port.type.target.split('.')
        itf = gen.interface_by_fqn(port.type.target)
        is_mc = bool(mc and mc['port'] == port.name)
        for eidx, ev in enumerate(itf.events):
            # parameter types the shell really uses: events it reroutes through lambdas
            used = is_mc or (port.direction == 'provides' and ev.direction == 'in') or \
                (port.direction == 'requires' and ev.direction == 'out')
            for fidx, _f in enumerate(ev.formals if used else []):
                out.append({'site': 'formal-type', 'itf': port.type.target, 'event_index': eidx,
                            'formal_index': fidx, 'scope': ifqn, 'kind': 'externs',
                            'port': port.name, 'mc_port': bool(mc and mc['port'] == port.name)})
            if mc and mc['port'] == port.name and ev.name == mc['claim']:
                out.append({'site': 'claim-reply', 'itf': port.type.target, 'event_index': eidx,
                            'scope': ifqn, 'kind': 'enums', 'port': port.name})
    return out


def apply_spelling(gen, ent, site, spelling, target):
    """A deep copy of (gen, ent) with the reference at `site` re-spelled."""
    gen2 = copy.deepcopy(gen)
    ent2 = next(e for e in gen2.components if e[0] == ent[0])
    if site['site'] == 'port-type':
        ref = ent2[1].ports[site['port_index']].type
    else:
        itf = gen2.interface_by_fqn(site['itf'])
        ev = itf.events[site['event_index']]
        ref = ev.reply if site['site'] == 'claim-reply' else ev.formals[site['formal_index']].type
    ref.ids = list(spelling)
    if target is not None:
        ref.target = target
    return gen2, ent2


def constructed_ambiguity(gen, ent, site, rng):
    """A copy of the model in which the reference at `site` gets a dedicated, freshly named
    declaration that is declared on TWO levels of its lookup chain: ambiguous for this site
    only (no other reference uses the name), so the build must fail exactly because of it.
    None if the chain offers fewer than two levels where such a declaration can live."""
    gen2 = copy.deepcopy(gen)
    ent2 = next(e for e in gen2.components if e[0] == ent[0])
    if site['site'] == 'port-type':
        ref = ent2[1].ports[site['port_index']].type
    else:
        itf = gen2.interface_by_fqn(site['itf'])
        ev = itf.events[site['event_index']]
        ref = ev.reply if site['site'] == 'claim-reply' else ev.formals[site['formal_index']].type
    decls = gen2.decls()
    names = {tuple(f) for _k, f, _o in decls}
    itfs = {tuple(f): o for k, f, o in decls if k == 'interfaces'}
    scope = list(site['scope'])
    levels = []
    for k in range(len(scope), -1, -1):
        level = tuple(scope[:k])
        through_decl = any(tuple(level[:m]) in names for m in range(1, len(level) + 1))
        if through_decl and not (level in itfs and site['kind'] == 'enums'):
            continue
        levels.append(level)
    if len(levels) < 2:
        return None
    taken = {f[-1] for f in names}
    from ..modelgen import fresh  # pylint: disable=import-outside-toplevel
    name = fresh(rng, taken, 'camel')
    chosen = rng.sample(levels, 2)
    for n, level in enumerate(chosen):
        new = {'externs': M.Extern([name], f'::vx::T{62 + n}'),
               'interfaces': M.Interface([name]),
               'enums': M.Enum([name], ['Qa', 'Qb'])}[site['kind']]
        if level in itfs:
            itfs[level].types.append(new)
            continue
        elements = gen2.model.elements
        for ns in level:
            found = next((e for e in elements if isinstance(e, M.Namespace) and e.name == [ns]), None)
            if found is None:
                found = M.Namespace([ns], [])
                elements.append(found)
            elements = found.elements
        elements.append(new)
    ref.ids = [name]
    ref.target = '.'.join(list(max(chosen, key=len)) + [name])
    hits = M.spec_lookup(M.declared_names(gen2.model), scope, ref.ids)
    if len(hits) != 2:
        return None
    return gen2, ent2, [(k, '.'.join(f)) for k, f, _o in hits], list(ref.ids)


def eval_case(case: dict) -> dict:
    """case: {'seed', 'stream', 'compile': bool}: one base model, many re-spellings."""
    common.import_dznpy()
    install_observer()
    rng = random.Random(f'{PROP}:{case["seed"]}:{case["stream"]}')
    out = {'violations': [], 'counts': {}}
    cnt = out['counts']

    def viol(mech, detail, c):
        out['violations'].append({'mechanism': mech, 'detail': detail, 'case': c})

    opts_rng = random.Random(rng.random())
    del opts_rng
    gen, ent, enc, info = cfggen.gen_shell_case(rng, want_multiclient=case['stream'] % 3 == 0,
                                                mc_shape=case['stream'] // 3,
                                                name_families=0.5 if case['stream'] % 2 else 0.15)
    if case['stream'] % 4 == 1:
        # the model of a large project: a few hundred declarations around the part under test
        gen.add_padding(130 + 40 * (case['stream'] % 3))
        cnt['models_with_more_than_128_declarations'] = 1
    # prefer rerouted ports so that formal types are resolved
    if case['stream'] % 2 == 0 and not enc.get('multiclient'):
        enc['provides'] = {'sts': 'NONE', 'mts': 'ALL'}
        enc['requires'] = {'sts': 'NONE', 'mts': 'ALL'}
    _v, _r, mapping = refcfg.judge(enc['provides'], enc['requires'], info['provides'],
                                   info['requires'], info['injected'])
    decls = gen.decls()
    simple_counts = {}
    for _k, fqn, _o in decls:
        simple_counts[fqn[-1]] = simple_counts.get(fqn[-1], 0) + 1
    all_sites = sites(gen, ent, enc, info, mapping)
    rng.shuffle(all_sites)
    compiled = 0
    nontrivial = False
    for site in all_sites[:6]:
        for spelling in spelling_pool(decls, rng):
            hits = M.spec_lookup(decls, site['scope'], spelling)
            unique_right = len(hits) == 1 and hits[0][0] == site['kind']
            target = '.'.join(hits[0][1]) if unique_right else None
            if site['site'] == 'claim-reply' and unique_right:
                # the configured granting value must exist in the enum that is now meant
                fields = hits[0][2].fields
            gen2, ent2 = apply_spelling(gen, ent, site, spelling, target)
            enc2 = copy.deepcopy(enc)
            if site['site'] == 'claim-reply' and unique_right:
                enc2['multiclient']['reply'] = [fields[0]]
            doc = M.to_json(gen2.model)
            sub = {'seed': case['seed'], 'stream': case['stream'], 'site': site,
                   'spelling': spelling, 'doc': doc, 'cfg': enc2,
                   'spec_hits': [(k, '.'.join(f)) for k, f, _o in hits]}
            _OBS['calls'] = []
            res = shellbuild.outcome(enc2, doc)
            cnt['builds'] = cnt.get('builds', 0) + 1
            cnt[f'site_{site["site"]}'] = cnt.get(f'site_{site["site"]}', 0) + 1
            verdict = 'unique' if unique_right else ('none' if not hits else (
                'several' if len(hits) > 1 else 'wrong-kind'))
            cnt[f'spec_{verdict}'] = cnt.get(f'spec_{verdict}', 0) + 1
            if simple_counts.get(spelling[-1], 0) >= 2:
                nontrivial = True
                cnt['spellings_of_shared_simple_names'] = cnt.get('spellings_of_shared_simple_names', 0) + 1
            # (1) online: every find_fqn call of this build vs the reference resolver
            decls2 = M.declared_names(gen2.model)
            for name, scope, got in _OBS['calls']:
                want = sorted((k, '.'.join(f)) for k, f, _o in M.spec_lookup(decls2, scope or [], name))
                cnt['find_fqn_calls_observed'] = cnt.get('find_fqn_calls_observed', 0) + 1
                if got != want:
                    viol('lookup-differs-from-scoping-rules',
                         {'name': name, 'scope': scope, 'want': want, 'got': got,
                          'missing': [w for w in want if w not in got],
                          'extra': [g for g in got if g not in want]}, sub)
                    break
            # (2) build-level verdict
            if 'files' in res:
                if not unique_right:
                    viol(f'build-accepted-reference:{verdict}:{site["site"]}',
                         {'spelling': spelling, 'scope': site['scope'], 'hits': sub['spec_hits']}, sub)
                    continue
                files = {n: c for n, c, _h in res['files']}
                hh = files[shellbuild.shell_name(enc2) + '.hh']
                cc = files[shellbuild.shell_name(enc2) + '.cc']
                cnt['emitted_types_checked'] = cnt.get('emitted_types_checked', 0) + 1
                if site['site'] == 'port-type':
                    port = ent2[1].ports[site['port_index']]
                    if not port.injected:
                        all_acc = shellbuild.accessors_in_header(hh)
                        acc = [a for a in all_acc if a['cap'] == shellbuild.cap(port.name)]
                        want_t = cxxgen.cfqn(target)
                        if not all_acc:
                            # header layout not recognised: left to the compiled sample
                            cnt['textual_accessor_extraction_failed'] = 1
                        elif not acc or acc[0]['itf'] != want_t:
                            viol('emitted-port-type-is-another-declaration',
                                 {'want': want_t, 'got': acc[0]['itf'] if acc else None}, sub)
                elif site['site'] == 'formal-type':
                    itf = gen2.interface_by_fqn(site['itf'])
                    ev = itf.events[site['event_index']]
                    want_data = hits[0][2].data
                    pat = re.compile(r'\.%s\.%s = \[&[^\]]*\]\(([^)]*)\)' % (ev.direction, re.escape(ev.name)))
                    found = pat.findall(cc)
                    ok = False
                    squeeze = lambda t: ''.join(t.split())   # noqa: E731
                    for params in found:
                        parts = [p.strip() for p in params.split(',')]
                        if len(parts) <= site['formal_index']:
                            continue
                        # "<type> <name>": the type may hold blanks itself (const T&)
                        ptype = parts[site['formal_index']].rsplit(None, 1)[0]
                        if squeeze(ptype) in (squeeze(want_data), squeeze(want_data) + '&'):
                            ok = True
                    if found and not ok:
                        viol('emitted-parameter-type-is-another-declaration',
                             {'want': want_data, 'lambdas': found[:3]}, sub)
                    elif not found:
                        cnt['formal_sites_without_rerouting_lambda'] = \
                            cnt.get('formal_sites_without_rerouting_lambda', 0) + 1
                else:
                    want_cmp = f'{cxxgen.cfqn(target)}::{fields[0]}'
                    if want_cmp not in cc:
                        others = [cxxgen.cfqn(f) for k, f, _o in decls2
                                  if k == 'enums' and '.'.join(f) != target
                                  and cxxgen.cfqn(f) + '::' in cc]
                        if others:
                            viol('emitted-claim-comparison-uses-another-enum',
                                 {'want': want_cmp, 'found': others[:3]}, sub)
                        else:
                            cnt['textual_claim_comparison_not_recognised'] = 1
                # (3) compile a sample against distinct types
                # an out/inout parameter re-pointed to an extern declared as a C++ reference is no
                # model `dzn code` could compile either (const T& &): not type-checked
                compilable = True
                if site['site'] == 'formal-type' and unique_right and \
                        hits[0][2].data.strip().endswith('&'):
                    ev_c = gen2.interface_by_fqn(site['itf']).events[site['event_index']]
                    compilable = ev_c.formals[site['formal_index']].direction == 'in'
                if case.get('compile') and compilable and compiled < 2 and rng.random() < 0.3:
                    compiled += 1
                    work = os.path.join(case['scratch'], f'c07_{case["stream"]}_{compiled}')
                    info2 = cfggen.comp_info(gen2, ent2)
                    prog = cxxlab.ShellProgram(gen2, ent2, enc2, info2, work)
                    if prog.generate():
                        bad = None
                        for src in ('main.cc', shellbuild.shell_name(enc2) + '.cc'):
                            rc, err = cxxlab.syntax_only(work, src, 'plain')
                            if rc not in (0, -9):
                                bad = err
                                break
                        cnt['programs_type_checked'] = cnt.get('programs_type_checked', 0) + 1
                        if bad:
                            msg = cxxlab.first_error(bad)
                            viol('emitted-types-do-not-match-model:' + cxxlab.normalise_error(msg),
                                 {'error': msg}, sub)
                    shutil.rmtree(work, ignore_errors=True)
            else:
                exc = res['exc']
                cnt[f'refused_{exc["class"].lower()}'] = cnt.get(f'refused_{exc["class"].lower()}', 0) + 1
                if unique_right:
                    viol(f'build-refused-unique-reference:{exc["type"]}:{site["site"]}',
                         dict(exc, spelling=spelling, scope=site['scope']), sub)
    # every site once more with a deliberately constructed ambiguity
    for site in all_sites[:16]:
        made = constructed_ambiguity(gen, ent, site, rng)
        if made is None:
            continue
        gen2, _ent2, hits, spelling = made
        doc = M.to_json(gen2.model)
        sub = {'seed': case['seed'], 'stream': case['stream'], 'site': site, 'spelling': spelling,
               'doc': doc, 'cfg': enc, 'spec_hits': hits}
        res = shellbuild.outcome(enc, doc)
        cnt['constructed_ambiguities'] = cnt.get('constructed_ambiguities', 0) + 1
        cnt[f'constructed_ambiguity_{site["site"]}'] = cnt.get(f'constructed_ambiguity_{site["site"]}', 0) + 1
        if 'files' in res:
            viol(f'build-accepted-reference:several:{site["site"]}',
                 {'spelling': spelling, 'scope': site['scope'], 'hits': hits, 'constructed': True,
                  'mc_port': site.get('mc_port', False)}, sub)
    out['digest'] = common.digest([case['seed'], case['stream'], M.to_json(gen.model)])
    out['nontrivial'] = nontrivial
    out['sample'] = {'component': info['fqn'], 'declared': ['.'.join(f) for _k, f, _o in decls][:16],
                     'sites': [s['site'] for s in all_sites[:6]]}
    return out


def _worker(arg):
    seed, stream, scratch, do_compile = arg
    return eval_case({'seed': seed, 'stream': stream, 'scratch': scratch, 'compile': do_compile})


def main(tier: str) -> int:
    run = common.Run(PROP, tier)
    n = 60 if tier == 'quick' else 4000
    n_compile = 6 if tier == 'quick' else 200
    scratch = run.scratch()
    # the online observer hooks ast_view.find_fqn where the builder imports it; a library that
    # resolves names through another entry point is still decided by the build-level verdicts
    # and the compiled sample, so the observer's count is reported, not required
    run.require('builds', 'models_with_more_than_128_declarations', 'emitted_types_checked', 'spec_unique',
                'spec_several', 'spec_none', 'spec_wrong-kind', 'site_port-type',
                'site_formal-type', 'site_claim-reply', 'programs_type_checked',
                'spellings_of_shared_simple_names', 'constructed_ambiguities',
                'constructed_ambiguity_formal-type', 'constructed_ambiguity_port-type',
                'constructed_ambiguity_claim-reply')
    jobs = [(run.seed, i, scratch, i < n_compile) for i in range(n)]
    for item, res in run.pmap(_worker, jobs, timeout=3600):
        common.absorb(run, {'seed': item[0], 'stream': item[1]}, res)
    return run.finish(
        rule='random models with reused simple names across sibling, nested and global '
             'namespaces; per model up to 6 reference sites (port type from the component\'s '
             'scope, event parameter type and claim reply enum from the interface\'s own scope) x '
             'up to 14 spellings drawn from the suffixes of every declared name; each judged by a '
             'set-comprehension resolver; evaluations = base models; non-trivial = a spelling '
             'whose simple name is declared at least twice',
        assumptions=['lookup spec: {d | exists k: d.fqn == scope[:k] + spelling}; unique and of '
                     'the expected kind => must build with that declaration, otherwise must fail',
                     'event parameters are of extern type (Dezyne only allows data parameters)'])


def replay(path: str) -> int:
    import json  # pylint: disable=import-outside-toplevel
    with open(os.path.join(path, 'replay.json'), encoding='utf-8') as fh:
        body = json.load(fh)
    sub = body['case']
    common.import_dznpy()
    res = shellbuild.outcome(sub['cfg'], sub['doc'])
    print('spec hits:', sub['spec_hits'], 'spelling:', sub['spelling'], 'site:', sub['site'])
    print('build:', 'files' if 'files' in res else res['exc'])
    unique = len(sub['spec_hits']) == 1 and sub['spec_hits'][0][0] == sub['site']['kind']
    if ('files' in res) != unique:
        print(f'VIOLATION property={PROP} replay={path}')
        return common.EXIT_VIOLATED
    return common.EXIT_HELD
