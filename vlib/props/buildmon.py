"""Monitors that ride along while whole shells are built (filled in once cfggen exists)."""


def textblock_invariant_during_builds(run, install, state, n_builds):
    """Build n shells with the TextBlock invariant installed; report broken invariants."""
    try:
        from .. import cfggen  # pylint: disable=import-outside-toplevel
    except ImportError:
        return
    cfggen.builds_with_invariant(run, install, state, n_builds)
