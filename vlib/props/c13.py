"""C13 - a build either returns a complete result or fails with a diagnosed error.

Monitor: outcome classifier.  Every generated model/configuration is built once valid (must
return the 8 files) and once per applicable single fault (must raise one of the library's own
errors).  The traceback of every exception is classified LIBRARY / DIAGNOSED_BUILTIN /
INTERNAL (vlib.common.classify_exception); INTERNAL always refutes.
"""
import copy
import os
import json
import random

from .. import cfggen
from .. import common
from .. import model as M
from .. import refcfg
from .. import shellbuild
from ..modelgen import fresh

PROP = 'C13'


def cfg_faults(rng: random.Random, gen, ent, enc, info):
    """[(fault name, faulty cfg encoding)] - each must be refused."""
    out = []
    decls = gen.decls()
    names = {'.'.join(f) for _k, f, _o in decls}
    # unknown encapsulee
    bogus = enc['encapsulee'] + 'X'
    while bogus in names:
        bogus += 'X'
    out.append(('unknown-encapsulee', dict(enc, encapsulee=bogus)))
    if '.' in enc['encapsulee']:
        short = enc['encapsulee'].split('.')[-1]
        if short not in names:
            out.append(('unknown-encapsulee:unqualified', dict(enc, encapsulee=short)))
    # degenerate spellings: no identifier at all, an empty identifier
    out.append(('unknown-encapsulee:empty-name', dict(enc, encapsulee='')))
    out.append(('unknown-encapsulee:empty-identifier', dict(enc, encapsulee=enc['encapsulee'] + '.')))
    out.append(('unknown-encapsulee:empty-leading-identifier', dict(enc, encapsulee='.' + enc['encapsulee'])))
    # encapsulee of the wrong kind
    for kind in ('interfaces', 'enums', 'externs', 'foreigns', 'subints'):
        cands = ['.'.join(f) for k, f, _o in decls if k == kind]
        cands = [c for c in cands if sum(1 for _k, f, _o in decls if '.'.join(f) == c) == 1]
        if cands:
            out.append((f'encapsulee-is-{kind[:-1]}', dict(enc, encapsulee=rng.choice(cands))))
    # port selection faults (kept only if the reference says REJECT)
    port_names = set(info['order'])
    unknown = fresh(rng, set(port_names), 'snake')
    trials = []
    for side in ('provides', 'requires'):
        for sem in ('sts', 'mts'):
            sel = enc[side][sem]
            new = sorted(set(sel) | {unknown}) if isinstance(sel, list) else [unknown]
            other = 'NONE' if not isinstance(enc[side]['mts' if sem == 'sts' else 'sts'], list) \
                else enc[side]['mts' if sem == 'sts' else 'sts']
            trials.append((f'unknown-port-name:{side}',
                           {side: {sem: new, ('mts' if sem == 'sts' else 'sts'): other}}))
            if sem == 'mts':
                empty = sorted(set(sel) | {''}) if isinstance(sel, list) else ['']
                trials.append((f'unknown-port-name:empty:{side}',
                               {side: {sem: empty, 'sts': other}}))
        exposed = info[side]
        if exposed:
            both = sorted(rng.sample(exposed, rng.randint(1, len(exposed))))
            trials.append((f'port-under-both-semantics:{side}', {side: {'sts': both, 'mts': both}}))
            if len(exposed) >= 2:
                trials.append((f'port-under-both-semantics-overlap:{side}',
                               {side: {'sts': sorted(exposed[:2]), 'mts': sorted(exposed[1:])}}))
            trials.append((f'all-plus-set:{side}', {side: {'sts': 'ALL', 'mts': both}}))
            trials.append((f'all-plus-remaining:{side}', {side: {'sts': 'REMAINING', 'mts': 'ALL'}}))
            trials.append((f'uncovered-port:{side}',
                           {side: {'sts': 'NONE', 'mts': sorted(exposed[1:]) or 'NONE'}}
                           if len(exposed) > 1 else {side: {'sts': 'NONE', 'mts': [unknown]}}))
    if len(info['provides']) >= 2:
        first, rest = info['provides'][:1], info['provides'][1:]
        trials.append(('mixed-provides', {'provides': {'sts': sorted(first), 'mts': sorted(rest)}}))
        trials.append(('mixed-provides-remaining', {'provides': {'sts': sorted(first),
                                                                 'mts': 'REMAINING'}}))
    for name, patch in trials:
        faulty = copy.deepcopy(enc)
        faulty.update(patch)
        if name.startswith('mixed') or 'provides' in patch:
            # keep a multi-client setting out of unrelated provides faults
            faulty['multiclient'] = None
        verdict, _reason, _map = refcfg.judge(faulty['provides'], faulty['requires'],
                                              info['provides'], info['requires'],
                                              info['injected'])
        if verdict == refcfg.REJECT:
            out.append((name, faulty))
    # multi-client faults
    mc = enc.get('multiclient')
    if mc:
        itf = gen.interface_by_fqn(info['ports'][mc['port']]['itf'])
        ev_names = {e.name for e in itf.events}
        bogus_ev = fresh(rng, set(ev_names), 'camel')
        out.append(('mc-unknown-port', dict(enc, multiclient=dict(mc, port=unknown))))
        out.append(('mc-unknown-claim-event', dict(enc, multiclient=dict(mc, claim=bogus_ev))))
        out.append(('mc-unknown-release-event', dict(enc, multiclient=dict(mc, release=bogus_ev))))
        enum_fields = next(m['fields'] for (_e, m) in gen.mc_interfaces
                           if m['claim'] == mc['claim'] and
                           '.'.join(m['itf_fqn']) == info['ports'][mc['port']]['itf'])
        out.append(('mc-reply-value-not-in-enum',
                    dict(enc, multiclient=dict(mc, reply=[fresh(rng, set(enum_fields), 'camel')]))))
        out.append(('mc-empty-port-name', dict(enc, multiclient=dict(mc, port=''))))
        out.append(('mc-empty-claim-event-name', dict(enc, multiclient=dict(mc, claim=''))))
        out.append(('mc-empty-release-event-name', dict(enc, multiclient=dict(mc, release=''))))
        out.append(('mc-empty-reply-value', dict(enc, multiclient=dict(mc, reply=[]))))
        out.append(('mc-reply-value-empty-identifier', dict(enc, multiclient=dict(mc, reply=['']))))
        kind_of = {'.'.join(f): k for k, f, _o in decls}
        for ev in itf.events:
            if ev.direction != 'in' or ev.name == mc['release']:
                continue
            if ev.reply.target is None:
                kind = ev.reply.ids[0]
            elif kind_of.get(ev.reply.target) == 'subints':
                kind = 'subint'
            else:
                continue
            out.append((f'mc-claim-reply-not-enum:{kind}',
                        dict(enc, multiclient=dict(mc, claim=ev.name))))
        sts_side = copy.deepcopy(enc)
        sts_side['provides'] = {'sts': 'ALL', 'mts': 'NONE'}
        out.append(('mc-on-sts-port', sts_side))
        other_provides = [p for p in info['provides'] if p != mc['port']
                          and info['ports'][p]['itf'] != info['ports'][mc['port']]['itf']]
        if info['requires']:
            out.append(('mc-port-is-requires-port',
                        dict(enc, multiclient=dict(mc, port=info['requires'][0]))))
        if other_provides:
            other_itf = gen.interface_by_fqn(info['ports'][other_provides[0]]['itf'])
            if mc['claim'] not in {e.name for e in other_itf.events}:
                out.append(('mc-port-without-claim-event',
                            dict(enc, multiclient=dict(mc, port=other_provides[0]))))
    return out


def model_faults(rng: random.Random, gen, ent, enc, info):
    """[(fault name, faulty model, cfg)] - unresolvable / ambiguous / wrong-kind port type."""
    out = []
    _fqn, comp, node = ent
    exposed = [p for p in comp.ports]
    if not exposed:
        return out
    idx = rng.randrange(len(exposed))
    decls = gen.decls()
    names = {tuple(f) for _k, f, _o in decls}

    def variant(mutator):
        model = copy.deepcopy(gen.model)
        # locate the copied component by walking the same path
        target = None

        def walk(elements, scope):
            nonlocal target
            for e in elements:
                if isinstance(e, M.Namespace):
                    walk(e.elements, scope + e.name)
                elif isinstance(e, (M.Component, M.System)) and \
                        '.'.join(scope + e.name) == info['fqn']:
                    target = e
        walk(model.elements, [])
        mutator(model, target)
        return model

    bogus = fresh(rng, {n[-1] for n in names}, 'camel')

    def unresolvable(_model, c):
        c.ports[idx].type = M.Ref([bogus])
    out.append(('port-type-unresolvable', variant(unresolvable), enc))

    def unresolvable_q(_model, c):
        c.ports[idx].type = M.Ref(list(c.ports[idx].type.ids) + [bogus])
    out.append(('port-type-unresolvable:qualified', variant(unresolvable_q), enc))

    wrong = [f for k, f, _o in decls if k in ('enums', 'externs', 'subints', 'components')
             and sum(1 for _k2, f2, _o2 in decls if f2 == f) == 1]
    if wrong:
        tgt = rng.choice(wrong)

        def wrong_kind(_model, c):
            c.ports[idx].type = M.Ref(list(tgt))
        if len(M.spec_lookup(decls, node.fqn, tgt)) == 1:
            out.append(('port-type-wrong-kind', variant(wrong_kind), enc))

    # ambiguity: declare a second interface along the lookup chain of the written spelling
    port = comp.ports[idx]
    chain = M.spec_resolution_order(node.fqn, port.type.ids)
    free = [c for c in chain if tuple(c) not in names and len(c) >= 1]
    if free:
        where = rng.choice(free)

        def ambiguous(model, _c):
            elements = model.elements
            for depth, ns in enumerate(where[:-1]):
                found = None
                for e in elements:
                    if isinstance(e, M.Namespace) and e.name == [ns]:
                        found = e
                        break
                if found is None:
                    found = M.Namespace([ns], [])
                    elements.append(found)
                elements = found.elements
            elements.append(M.Interface([where[-1]]))
        faulty = variant(ambiguous)
        hits = M.spec_lookup(M.declared_names(faulty), node.fqn, port.type.ids)
        if len(hits) == 2:
            out.append(('port-type-ambiguous', faulty, enc))

    # the same fully qualified name defined twice (a second block of the namespace re-opened
    # further down): the port's interface, the encapsulee itself
    def reopened_with(path, element):
        def mutate(model, _c):
            holder = model.elements
            for ns in path[:-1]:
                again = M.Namespace([ns], [])
                holder.append(again)
                holder = again.elements
            holder.append(element)
        return mutate
    target = (port.type.target or '').split('.')
    if port.type.target and any(tuple(target) == tuple(f) for k, f, _o in decls if k == 'interfaces'):
        out.append(('port-type-defined-twice',
                    variant(reopened_with(target, M.Interface([target[-1]]))), enc))
    if isinstance(comp, M.Component):
        out.append(('encapsulee-defined-twice',
                    variant(reopened_with(info['fqn'].split('.'), M.Component(
                        [info['fqn'].split('.')[-1]], []))), enc))
    return out


def classify(res, expect_success: bool, fault: str):
    """-> (mechanism or None, detail, outcome tag)"""
    if 'files' in res:
        if expect_success:
            return None, {}, 'success'
        return f'fault-accepted:{fault}', {'files': [f[0] for f in res['files']]}, 'success'
    info = res['exc']
    if info['class'] == 'INTERNAL':
        return f'internal-error:{info["type"]}@{info["where"]}', dict(info, fault=fault), 'internal'
    if expect_success:
        return f'valid-input-refused:{info["type"]}', info, info['class'].lower()
    if not info['message'].strip():
        return f'error-without-message:{info["type"]}', dict(info, fault=fault), info['class'].lower()
    if info['class'] != 'LIBRARY':
        # a deliberate `raise ValueError(...)` is diagnosed, but it is not one of the library's
        # own error types, which is what the statement promises for every listed fault
        return f'fault-refused-with-foreign-error-type:{info["type"]}@{info["where"]}', \
            dict(info, fault=fault), info['class'].lower()
    return None, {}, info['class'].lower()


def eval_case(case: dict) -> dict:
    """case: {'doc': json, 'cfg': enc, 'expect': 'success'|'error', 'fault': name}"""
    common.import_dznpy()
    out = {'violations': [], 'counts': {}}
    res = shellbuild.outcome(case['cfg'], case['doc'])
    mech, detail, tag = classify(res, case['expect'] == 'success', case.get('fault', 'none'))
    out['counts'][f'outcome_{tag}'] = 1
    out['counts'][f'fault_{case.get("fault", "none").split(":")[0]}'] = 1
    if mech:
        out['violations'].append({'mechanism': mech, 'detail': detail, 'case': case})
    if 'files' in res and case['expect'] == 'success':
        names = [f[0] for f in res['files']]
        want = shellbuild.expected_filenames(case['cfg'])
        out['counts']['complete_file_sets'] = 1
        if sorted(names) != sorted(want) or any(not isinstance(f[1], str) or not f[1].strip()
                                for f in res['files']):
            out['violations'].append({'mechanism': 'partial-or-wrong-file-set',
                                      'detail': {'got': names, 'want': want}, 'case': case})
    out['digest'] = common.digest(case)
    out['nontrivial'] = True
    return out


def _worker(arg):
    seed, stream = arg
    rng = random.Random(f'{PROP}:{seed}:{stream}')
    # every eighth model and configuration is of big size: ten and more ports and events, long
    # identifiers, file name, prefix, one-line copyright notice, creator text without blanks
    gen, ent, enc, info = cfggen.gen_shell_case(rng, big=stream % 8 == 5)
    if stream % 8 == 3:
        # the model of a large project: some three hundred declarations around the part built
        gen.add_padding(300)
    doc = M.to_json(gen.model)
    agg = {'violations': [], 'counts': {'valid_builds_of_big_size': int(bool(enc.get('big'))),
                                        'models_with_hundreds_of_declarations': int(stream % 8 == 3)},
           'cases': []}
    cases = [{'doc': doc, 'cfg': enc, 'expect': 'success', 'fault': 'none'}]
    if stream % 4 == 1:
        # the texts alone, on a model of usual size
        texts = dict(enc)
        cfggen.enlarge(rng, texts)
        texts['filename'], texts['prefix'] = enc['filename'], enc['prefix']
        cases.append({'doc': doc, 'cfg': texts, 'expect': 'success', 'fault': 'none'})
    for name, faulty in cfg_faults(rng, gen, ent, enc, info):
        cases.append({'doc': doc, 'cfg': faulty, 'expect': 'error', 'fault': name})
    for name, model, cfg in model_faults(rng, gen, ent, enc, info):
        cases.append({'doc': M.to_json(model), 'cfg': cfg, 'expect': 'error', 'fault': name})
    for case in cases:
        res = eval_case(case)
        for key, val in res['counts'].items():
            agg['counts'][key] = agg['counts'].get(key, 0) + val
        agg['violations'].extend(res['violations'])
        agg['cases'].append((res['digest'], case['fault'] != 'none' or bool(info['order'])))
    agg['sample'] = {'cfg': cases[-1]['cfg'], 'fault': cases[-1]['fault'],
                     'component': info['fqn'], 'ports': info['order']}
    return agg


DEEP_CHILD = '''
import json, sys
sys.path.insert(0, sys.argv[1])
from vlib import common, shellbuild
common.import_dznpy()
case = json.load(open(sys.argv[2]))
res = shellbuild.outcome(case["cfg"], case["doc"])
print(json.dumps({"files": [f[0] for f in res["files"]]} if "files" in res else {"exc": res["exc"]}))
'''


def deep_case(depth: int) -> dict:
    """A valid model whose component and interface sit `depth` namespaces deep."""
    itf = M.Interface(['IDeep'], [], [M.Event('go', 'in', M.Ref(['void']), []),
                                      M.Event('done', 'out', M.Ref(['void']), [])])
    path = [f'n{i}' for i in range(depth)]
    comp = M.Component(['Deep'], [M.Port('api', M.Ref(['IDeep'], '.'.join(path + ['IDeep'])),
                                         'provides')])
    inner = [itf, comp]
    for name in reversed(path):
        inner = [M.Namespace([name], inner)]
    cfg = {'encapsulee': '.'.join(path + ['Deep']), 'filename': 'Deep.dzn', 'suffix': 'Shell',
           'provides': {'sts': 'NONE', 'mts': 'ALL'}, 'requires': {'sts': 'NONE', 'mts': 'ALL'},
           'multiclient': None, 'origin': 'create', 'copyright': 'c', 'creator': None,
           'prefix': None}
    return {'doc': M.to_json(M.Model(inner)), 'cfg': cfg, 'expect': 'success',
            'fault': f'none:nesting-depth-{depth}'}


def eval_deep(arg):
    """'Never hangs' needs a budget that a loaded machine cannot exhaust by itself: the build
    runs in a child limited to CPU_BUDGET seconds of *processor time* (the unchanged library
    needs a few hundredths of a second at any of these depths)."""
    import resource  # pylint: disable=import-outside-toplevel
    import subprocess  # pylint: disable=import-outside-toplevel
    import sys  # pylint: disable=import-outside-toplevel
    import tempfile  # pylint: disable=import-outside-toplevel
    depth, budget = arg
    case = deep_case(depth)
    out = {'violations': [], 'counts': {'deep_models_built': 1}, 'case': case}
    with tempfile.NamedTemporaryFile('w', suffix='.json', delete=False) as fh:
        json.dump(case, fh)
    try:
        proc = subprocess.run(
            [sys.executable, '-c', DEEP_CHILD,
             os.path.dirname(os.path.dirname(os.path.abspath(common.__file__))), fh.name], capture_output=True, text=True,
            timeout=budget * 20, env=dict(os.environ, PYTHONHASHSEED='0'),
            preexec_fn=lambda: resource.setrlimit(resource.RLIMIT_CPU, (budget, budget + 5)))
        if proc.returncode < 0:
            out['violations'].append({'mechanism': 'no-outcome-within-cpu-budget',
                                      'detail': {'nesting_depth': depth, 'cpu_seconds': budget,
                                                 'signal': -proc.returncode}, 'case': case})
        elif proc.returncode != 0:
            out['inconclusive'] = 'deep child failed: ' + proc.stderr[-300:]
        else:
            res = json.loads(proc.stdout.strip().splitlines()[-1])
            if 'files' not in res:
                info = res['exc']
                out['violations'].append({'mechanism': f'valid-input-refused:{info["type"]}',
                                          'detail': dict(info, nesting_depth=depth), 'case': case})
            elif sorted(res['files']) != sorted(shellbuild.expected_filenames(case['cfg'])):
                out['violations'].append({'mechanism': 'partial-or-wrong-file-set',
                                          'detail': {'got': res['files']}, 'case': case})
    except subprocess.TimeoutExpired:
        out['inconclusive'] = f'deep child exceeded {budget * 20}s wall clock without using up its CPU budget'
    finally:
        os.unlink(fh.name)
    return out


def main(tier: str) -> int:
    run = common.Run(PROP, tier, level='fault_enumeration')
    n = 150 if tier == 'quick' else 15000
    run.require('outcome_success', 'valid_builds_of_big_size', 'models_with_hundreds_of_declarations',
                'fault_port-type-defined-twice', 'fault_encapsulee-defined-twice', 'outcome_library', 'complete_file_sets', 'fault_unknown-encapsulee',
                'fault_port-type-unresolvable', 'fault_port-type-ambiguous',
                'fault_uncovered-port', 'fault_mc-unknown-claim-event')
    for _item, res in run.pmap(_worker, [(run.seed, i) for i in range(n)], chunksize=4,
                               timeout=600):
        if 'harness_error' in res:
            run.mark_inconclusive('harness error: ' + res['harness_error'][-400:])
            continue
        for dig, nontrivial in res['cases']:
            run.case(dig, nontrivial)
        if len(run.samples) < run.max_samples:
            run.samples.append(common.jsonable(res['sample']))
        run.merge_counts(res['counts'])
        for v in res['violations']:
            run.violation(v['mechanism'], v.get('detail'), v.get('case'))
    run.require('deep_models_built')
    for _item, res in run.pmap(eval_deep, [(d, 60) for d in (8, 16, 24, 32, 40)]):
        if 'harness_error' in res:
            run.mark_inconclusive('harness error: ' + res['harness_error'][-400:])
            continue
        if res.get('inconclusive'):
            run.mark_inconclusive(res['inconclusive'])
        run.merge_counts(res['counts'])
        run.case(common.digest(res['case']), True)
        for v in res['violations']:
            run.violation(v['mechanism'], v.get('detail'), v.get('case'))
    return run.finish(
        rule='per generated model + valid configuration: one valid build (must return header, '
             'source and the six support files) and every applicable single fault (unknown / '
             'non-component encapsulee, unresolvable / ambiguous / wrong-kind port type, unknown '
             'port name, port under both semantics, ALL+set, mixed provides, uncovered port, six '
             'invalid multi-client settings), each of which must raise a library error; '
             'evaluations = builds; distinct = digest of (document, configuration)',
        assumptions=['library error types = AdvShellError, MultiClientCfgError, FindError, '
                     'DznJsonError, NamespaceIdsTypeError, CppGenError and their subclasses; a '
                     'deliberate TypeError/ValueError from inside dznpy is not one of them',
                     'faults the statement does not list (release event naming an out-event, '
                     'claim == release) are not generated',
                     'a worker watchdog (600 s per 4 models) firing is inconclusive, not a verdict'])


def replay(path: str) -> int:
    return common.generic_replay(PROP, eval_case, path)
