"""C18 - indentation shifts text without changing it.

Monitor: reference-model comparison.  Indentizer.to_list / to_str and TextBlock.indent run on
random line lists under every indenter configuration class; each output line is compared with
a direct specification written from the property text (vlib.textref).
"""
import random

from .. import common
from .. import textref as T

PROP = 'C18'

GLYPHS = ['-', '*', '//', '->', '(a)', '>>>>', 'ab#cd', 'é', '#']
LINE_POOL = ['a', 'text', '  lead', 'trail  ', ' both ', '', '', ' ', '\t', 'x\ty', '- dash', '//c',
             '{', '}', '0', 'é']


def build_case(rng: random.Random) -> dict:
    indentor = rng.choice(['spaces', 'spaces', 'spaces', 'tab'])
    mode = rng.choice(['none', 'none', 'all', 'first'])
    case = {
        'indentor': indentor,
        'spaces': rng.choice([0, 1, 2, 3, 4, 4, 5, 6, 8]),
        'mode': mode,
        'glyph': rng.choice(GLYPHS) if mode != 'none' else None,
        'lines': [rng.choice(LINE_POOL) for _ in range(rng.choice([0, 1, 1, 2, 3, 4, 6, 9]))],
        'repeat': rng.choice([1, 1, 1, 2, 3]),
        'via': rng.choice(['to_list', 'to_str', 'textblock', 'textblock_header',
                           'textblock_set_indentor', 'textblock_given_once',
                           'textblock_forked']),
        'nested': rng.random() < 0.15,
    }
    if case['via'] in ('to_list', 'to_str') and len(case['lines']) >= 2 and rng.random() < 0.06:
        case['deep'] = rng.choice([17, 18, 24, 40])
    if mode != 'none' and rng.random() < 0.2:
        case['shared_bullets'] = rng.choice(['wider', 'tab'])
    if case['via'] == 'textblock_given_once':
        case['repeat'] = max(case['repeat'], 2)
        case['copied'] = rng.choice([None, 'deepcopy', 'pickle'])
    if case['via'] in ('to_list', 'to_str') and rng.random() < 0.25 and case['lines']:
        # the indenter itself takes any strings: a line may hold a carriage return, a form feed,
        # a Unicode line separator - characters str.splitlines() would cut at
        pos = rng.randrange(len(case['lines']))
        case['lines'][pos] = rng.choice(['a\rb', 'x\x0cy', 'p\u2028q', 'tail\r', '\x0bv', 'n\x85e',
                                         '\x1cfs'])
    if rng.random() < 0.1:
        case['factory'] = rng.choice(['all_dashes', 'initial_dash'])
        case['mode'] = 'all' if case['factory'] == 'all_dashes' else 'first'
        case['glyph'] = '-'
        case['spaces'] = 2
    elif rng.random() < 0.15:
        # the width is not passed in: it comes from the module default, which a user may
        # override (text_gen.fetch_default_indent_nr_spaces documents that as a feature)
        case['default_override'] = True
    return case


def make_indentizer(case, tg):
    indentor = tg.Indentor.SPACES if case['indentor'] == 'spaces' else tg.Indentor.TAB
    if case.get('factory') == 'all_dashes':
        return tg.all_dashes_t(indentor)
    if case.get('factory') == 'initial_dash':
        return tg.initial_dash_t(indentor)
    bullets = None
    if case['mode'] != 'none':
        bullets = tg.BulletList(mode=tg.BulletListMode.ALL if case['mode'] == 'all'
                                else tg.BulletListMode.FIRST_ONLY, glyph=case['glyph'])
    if case.get('default_override'):
        saved = tg.DEFAULT_INDENT_NR_SPACES
        tg.DEFAULT_INDENT_NR_SPACES = case['spaces']
        try:
            return tg.Indentizer(indentor=indentor, bullet_list=bullets)
        finally:
            tg.DEFAULT_INDENT_NR_SPACES = saved
    first = tg.Indentizer(indentor=indentor, spaces_count=case['spaces'], bullet_list=bullets)
    if bullets is not None and case.get('shared_bullets'):
        # one list style object serves several indenters (all outline levels set up front):
        # a second one of another width / indentor is built before the first is used
        other = tg.Indentor.TAB if case['indentor'] == 'spaces' and case['shared_bullets'] == 'tab' \
            else indentor
        tg.Indentizer(indentor=other, spaces_count=case['spaces'] + 4, bullet_list=bullets)
    return first


def judge_lines(case, src, got):
    """Compare one indentation step (src lines -> got lines) with the specification.
    Returns a list of (mechanism, detail)."""
    out = []
    if len(got) != len(src):
        return [('line-count-changed', {'src': src, 'got': got})]
    white, bullet = T.ref_indent_prefixes(case['indentor'], case['spaces'], case['glyph'])
    for idx, (line, res) in enumerate(zip(src, got)):
        bulleted = case['mode'] == 'all' or (case['mode'] == 'first' and idx == 0)
        if not isinstance(res, str):
            out.append(('non-string-line', {'got': repr(res)}))
        elif bulleted:
            if T.is_blank(line):
                if res != case['glyph']:
                    out.append(('blank-line-in-bullet-mode-not-bare-glyph',
                                {'line': line, 'got': res}))
            else:
                want = bullet + line
                if res.rstrip() != want.rstrip():
                    out.append(('bullet-line-differs', {'line': line, 'want': want, 'got': res}))
                elif len(res) - len(res.rstrip()) > len(line) - len(line.rstrip()):
                    out.append(('trailing-whitespace-introduced', {'line': line, 'got': res}))
        elif T.is_blank(line):
            if res != '':
                out.append(('blank-line-not-empty', {'line': line, 'got': res}))
        else:
            want = white + line
            if res != want:
                kind = 'continuation-line-differs' if case['mode'] == 'first' else \
                    'indented-line-differs'
                out.append((kind, {'line': line, 'want': want, 'got': res}))
    return out


def eval_case(case: dict) -> dict:
    common.import_dznpy()
    from dznpy import text_gen as tg  # pylint: disable=import-outside-toplevel
    out = {'violations': [], 'counts': {}}
    cnt = out['counts']

    def viol(mech, **detail):
        out['violations'].append({'mechanism': mech, 'detail': detail, 'case': case})

    cnt[f'via_{case["via"]}'] = 1
    if any(ch in ln for ln in case['lines'] for ch in '\r\x0b\x0c\x1c\x85\u2028'):
        cnt['lines_with_inner_line_boundaries'] = 1
    if case.get('default_override'):
        cnt['width_from_overridden_module_default'] = 1
    if case.get('shared_bullets') and case['mode'] != 'none' and not case.get('factory') \
            and not case.get('default_override'):
        cnt['bullet_list_object_shared_with_another_indenter'] = 1
    cnt[f'mode_{case["mode"]}_{case["indentor"]}'] = 1
    lines = list(case['lines'])
    try:
        ind = make_indentizer(case, tg)
        if case['glyph'] is not None and len(case['glyph']) + 1 > case['spaces']:
            cnt['glyph_wider_than_indent'] = 1
        if case['via'] in ('to_list', 'to_str'):
            src = lines
            content = [lines[:1], lines[1:]] if case['nested'] and lines else list(lines)
            if case.get('deep') and lines:
                # an outline: every section list holds its sub-section list, 17-40 levels down
                content = []
                cur = content
                for pos, line in enumerate(lines):
                    cur.append(line)
                    if pos < len(lines) - 1:
                        for _ in range(max(1, case['deep'] // max(1, len(lines) - 1))):
                            nxt = []
                            cur.append(nxt)
                            cur = nxt
                cnt['contents_nested_17_levels_and_deeper'] = 1
            for _ in range(case['repeat']):
                got = ind.to_list(content)
                for mech, detail in judge_lines(case, src, got):
                    viol(mech, **detail)
                cnt['lines_judged'] = cnt.get('lines_judged', 0) + len(src)
                if case['via'] == 'to_str':
                    if got:
                        text = ind.to_str(content)
                        cnt['to_str_compared'] = cnt.get('to_str_compared', 0) + 1
                        if text != '\n'.join(got) + '\n':
                            viol('to_str-differs-from-to_list', want='\n'.join(got) + '\n',
                                 got=text)
                    else:
                        cnt['unspecified_to_str_of_nothing'] = 1
                src = content = got
        elif case['via'] == 'textblock_forked':
            # one prepared block rendered under several layouts: each layout indents a copy
            # (copy.copy) of it; the prepared block, and the lines read from it before, stay
            import copy  # pylint: disable=import-outside-toplevel
            tb = tg.TextBlock(list(lines))
            held = tb.lines
            src = list(held)
            for step in range(case['repeat'] + 1):
                fork = copy.copy(tb)
                fork.indent(ind)
                got = list(fork.lines)
                for mech, detail in judge_lines(case, src, got):
                    viol(mech, forked_copy=step, **detail)
                cnt['lines_judged'] = cnt.get('lines_judged', 0) + len(src)
            cnt['forked_copies_indented'] = case['repeat'] + 1
            if list(tb.lines) != src or list(held) != src:
                viol('indenting-a-copy-shifted-the-prepared-block', want=src, got=list(tb.lines),
                     held=list(held))
        else:
            header = ['H1', '  h2'] if case['via'] == 'textblock_header' else None
            tb = tg.TextBlock(list(lines), header=header) if header else tg.TextBlock(list(lines))
            src = list(tb.lines)
            if src != lines:
                viol('textblock-did-not-store-lines', src=src)
            for step in range(case['repeat']):
                if case['via'] == 'textblock_set_indentor':
                    ret = tb.set_indentor(ind).indent()
                elif case['via'] == 'textblock_given_once' and step > 0:
                    # indent(options) specifies the options "in one sweep": they are the
                    # block's current options from then on - also for a deep copy of the
                    # block and for one that went through pickle
                    if case.get('copied') == 'deepcopy':
                        import copy  # pylint: disable=import-outside-toplevel
                        tb = copy.deepcopy(tb)
                        cnt['blocks_deep_copied_between_indents'] = 1
                    elif case.get('copied') == 'pickle':
                        import pickle  # pylint: disable=import-outside-toplevel
                        tb = pickle.loads(pickle.dumps(tb))
                        cnt['blocks_pickled_between_indents'] = 1
                    ret = tb.indent()
                else:
                    ret = tb.indent(ind)
                if ret is not tb:
                    viol('indent-does-not-return-self')
                got = list(tb.lines)
                for mech, detail in judge_lines(case, src, got):
                    viol(mech, **detail)
                cnt['lines_judged'] = cnt.get('lines_judged', 0) + len(src)
                src = got
            if header:
                cnt['headers_checked'] = 1
                want = ''.join(x + '\n' for x in header + src)
                if str(tb) != want:
                    viol('header-indented-or-string-form-differs', want=want, got=str(tb))
    except Exception as exc:  # pylint: disable=broad-except
        info = common.classify_exception(exc)
        viol(f'exception:{info["type"]}@{info["where"]}', **info)
    out['digest'] = common.digest(case)
    out['nontrivial'] = len(lines) >= 2 and any(T.is_blank(x) for x in lines) and \
        any(not T.is_blank(x) for x in lines)
    out['sample'] = case
    return out


def _worker(arg):
    seed, chunk_no, count = arg
    rng = random.Random(f'{PROP}:{seed}:{chunk_no}')
    agg = {'violations': [], 'counts': {}, 'cases': []}
    for _ in range(count):
        case = build_case(rng)
        res = eval_case(case)
        for key, val in res['counts'].items():
            agg['counts'][key] = agg['counts'].get(key, 0) + val
        agg['violations'].extend(res['violations'][:2])
        agg['cases'].append((res['digest'], res['nontrivial']))
    agg['sample'] = case
    return agg


def main(tier: str) -> int:
    run = common.Run(PROP, tier)
    total = 40000 if tier == 'quick' else 1600000
    per = 1000 if tier == 'quick' else 10000
    run.require('lines_judged', 'to_str_compared', 'headers_checked', 'glyph_wider_than_indent',
                'mode_none_spaces', 'mode_all_spaces', 'mode_first_spaces', 'mode_none_tab',
                'mode_all_tab', 'mode_first_tab', 'width_from_overridden_module_default',
                'lines_with_inner_line_boundaries', 'forked_copies_indented',
                'blocks_deep_copied_between_indents', 'blocks_pickled_between_indents',
                'contents_nested_17_levels_and_deeper',
                'bullet_list_object_shared_with_another_indenter')
    for _item, res in run.pmap(_worker, [(run.seed, i, per) for i in range(total // per)]):
        if 'harness_error' in res:
            run.mark_inconclusive('harness error: ' + res['harness_error'][-300:])
            continue
        for dig, nontrivial in res['cases']:
            run.case(dig, nontrivial)
        if len(run.samples) < run.max_samples:
            run.samples.append(common.jsonable(res['sample']))
        run.merge_counts(res['counts'])
        for v in res['violations']:
            run.violation(v['mechanism'], v.get('detail'), v.get('case'))
    return run.finish(
        rule='random line lists (0-9 lines from a pool with blank, whitespace-only, leading/'
             'trailing-whitespace and tab-holding lines) x indenter configurations (spaces 0-8 or '
             'tab; no bullets / all lines / first line only; glyphs of 1-5 characters incl. wider '
             'than the indent; factory functions) x entry point (to_list, to_str, TextBlock.indent '
             'with and without header, set_indentor) x 1-3 repetitions; non-trivial = >=2 lines '
             'holding both blank and non-blank ones; distinct = digest of the case',
        assumptions=['bullet glyphs are >=1 non-whitespace characters (empty/blank glyphs are '
                     'outside the stated configurations)',
                     'in bullet modes lines are compared modulo trailing whitespace but may never '
                     'gain trailing whitespace (the statement forbids introducing it)',
                     'to_str() of content that flattens to nothing is not judged'])


def replay(path: str) -> int:
    return common.generic_replay(PROP, eval_case, path)
