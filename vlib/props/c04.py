"""C04 - a multi-client port delivers out-events only to the client holding the claim.

Monitor: history + executable sequential model.  A compiled multi-client shell (mock component
whose claim replies are scripted, so it can be hostile) is driven through histories of claim /
release / other in-events by 1-5 registered clients and out-events raised by the component;
per-client recorders log deliveries.  The model is a dozen lines: the set of clients whose most
recent claim was granted and who have not released since.
"""
import itertools
import random

from .. import common
from .. import cxxlab
from .. import progrun
from .. import scripts
from .c01 import replay_program

PROP = 'C04'


def history_script(prog, mci, clients, history, final_at=0, bind_at=0):
    """`final_at`: how many operations of the history run before FinalConstruct() (a claim
    during assembly is a claim).  `bind_at` (<= final_at, never after the first out-event):
    how many run before the clients connect their out-event handlers."""
    lines = scripts.preamble(prog, clients=clients, bind_clients=False)
    port = mci['port']
    for pos, op in enumerate(list(history) + [None]):
        if pos == bind_at:
            lines += [f'bindall {c}' for c in clients]
        if pos == min(final_at, len(history)):
            lines.append('final')
        if op is None:
            break
        kind = op[0]
        if kind == 'claim':
            _k, client, idx = op
            lines += [f'reply comp/{port}/{mci["claim"]} {idx}', f'call {port}/{mci["claim"]} {client}']
        elif kind == 'release':
            lines.append(f'call {port}/{mci["release"]} {op[1]}')
        elif kind == 'rebind':
            # the client connects its handlers once more (a new object takes over its port)
            lines.append(f'bindall {op[1]}')
            continue
        elif kind == 'other':
            _k, client, ev, idx = op
            if idx is not None:
                lines.append(f'reply comp/{port}/{ev} {idx}')
            lines.append(f'call {port}/{ev} {client}')
        else:
            lines.append(f'raise {port}/{op[1]} pump')
        lines.append('quiesce')
    return '\n'.join(lines) + '\n'


def judge_history(log, mci, history):
    """Apply the sequential model to the log of one history. -> (violations, counts)"""
    viols = []
    counts = {'out_events_judged': 0, 'in_events_judged': 0, 'unspecified_multi_grant': 0,
              'deliveries_to_holder': 0, 'deliveries_to_nobody': 0}
    granted = []          # clients in grant order (a set with memory)
    displaced = set()     # holders after whose grant another client was granted the claim
    # split the log into one window per history operation (each op = exactly one `call`)
    wins = []
    cur = None
    for rec in log:
        if rec['kind'] == 'call':
            cur = {'call': rec, 'records': []}
            wins.append(cur)
        elif cur is not None:
            cur['records'].append(rec)
    calls = [op for op in history if op[0] != 'rebind']
    if len(wins) != len(calls):
        return [('history-not-fully-executed', {'ops': len(calls), 'executed': len(wins)})], counts
    generation = {}       # client -> how often it has connected its handlers
    wins_iter = iter(wins)
    for idx, op in enumerate(history):
        if op[0] == 'rebind':
            generation[op[1]] = generation.get(op[1], 1) + 1
            counts['handlers_reconnected'] = counts.get('handlers_reconnected', 0) + 1
            continue
        win = next(wins_iter)
        call = win['call']['d']
        arrivals = [r for r in win['records'] if r['kind'] == 'arrive']
        dones = [r for r in win['records'] if r['kind'] == 'arrive_done']
        rets = [r for r in win['records'] if r['kind'] == 'return']
        where = {'op_index': idx, 'op': list(op), 'granted_before': list(granted)}
        if op[0] == 'out':
            counts['out_events_judged'] += 1
            got = [a['d'].get('client') for a in arrivals
                   if a['d']['side'] == 'user' and a['d']['event'] == op[1]]
            wrong_event = [a['d']['event'] for a in arrivals if a['d']['event'] != op[1]]
            if wrong_event:
                viols.append(('out-event-delivered-as-other-event', dict(where, got=wrong_event)))
            stale = [(a['d'].get('client'), a['d'].get('gen')) for a in arrivals
                     if a['d']['side'] == 'user' and a['d'].get('gen') is not None
                     and a['d'].get('gen') != generation.get(a['d'].get('client'), 1)]
            if stale:
                viols.append(('out-event-delivered-to-replaced-handler',
                              dict(where, stale=stale, current=dict(generation))))
            if len(granted) > 1:
                # the component granted a claim while another client held one: 'the one' of
                # the statement is not unique - judged leniently while several hold it
                counts['unspecified_multi_grant'] += 1
                if len(got) > 1 or any(g not in granted for g in got):
                    viols.append(('out-event-delivered-outside-granted-set',
                                  dict(where, delivered_to=got)))
            elif len(granted) == 1:
                if got == [granted[0]]:
                    counts['deliveries_to_holder'] += 1
                    if granted[0] in displaced:
                        counts['deliveries_to_displaced_holder'] = \
                            counts.get('deliveries_to_displaced_holder', 0) + 1
                elif not got:
                    viols.append(('out-event-lost-although-claim-held',
                                  dict(where, holder=granted[0],
                                       holder_was_displaced=granted[0] in displaced,
                                       last_ops=[list(o) for o in history[max(0, idx - 3):idx]])))
                elif len(got) > 1:
                    viols.append(('out-event-delivered-to-several-clients',
                                  dict(where, delivered_to=got)))
                else:
                    viols.append(('out-event-delivered-to-wrong-client',
                                  dict(where, holder=granted[0], delivered_to=got)))
            else:
                if got:
                    viols.append(('out-event-delivered-without-claim', dict(where, delivered_to=got)))
                else:
                    counts['deliveries_to_nobody'] += 1
            continue
        # a client in-event: must reach the component through the dispatcher, reply returned
        counts['in_events_judged'] += 1
        comp_arr = [a for a in arrivals if a['d']['side'] == 'comp']
        if len(comp_arr) != 1 or comp_arr[0]['d']['event'] != call['event']:
            viols.append(('client-in-event-not-forwarded-once',
                          dict(where, arrived=[a['d']['event'] for a in comp_arr])))
        else:
            if not comp_arr[0]['disp']:
                viols.append(('client-in-event-not-through-dispatcher', where))
            if comp_arr[0]['d']['args'] != call['args']:
                viols.append(('client-in-event-arguments-altered', where))
            if rets and dones and (rets[0]['d']['reply'] != dones[0]['d']['reply']
                                   or rets[0]['d']['outs'] != dones[0]['d']['outs']):
                viols.append(('client-in-event-reply-not-returned', where))
            if not rets:
                viols.append(('client-in-event-did-not-return', where))
        if op[0] == 'claim':
            client, idxr = op[1], op[2]
            reply = dones[0]['d']['reply'] if dones else None
            if reply != idxr:
                viols.append(('scripted-reply-not-used', dict(where, reply=reply)))
            if idxr == mci['grant']:
                if client in granted:
                    granted.remove(client)
                displaced.update(granted)
                displaced.discard(client)
                granted.append(client)
        elif op[0] == 'release':
            if op[1] in granted:
                granted.remove(op[1])
            displaced.discard(op[1])
    return viols, counts


def rand_history(rng, mci, clients, others, outs, length):
    history = []
    holder = None
    for _ in range(length):
        r = rng.random()
        client = rng.choice(clients)
        if r < 0.3:
            # an exclusive component grants only when nobody (else) holds the claim; a small
            # share of hostile double grants is kept and judged leniently
            may_grant = holder in (None, client) or rng.random() < 0.05
            idx = mci['grant'] if (may_grant and rng.random() < 0.7) else \
                rng.choice([i for i in range(mci['n_fields']) if i != mci['grant']] or [mci['grant']])
            history.append(('claim', client, idx))
            if idx == mci['grant']:
                holder = client
        elif r < 0.5:
            history.append(('release', client))
            if holder == client:
                holder = None
        elif r < 0.65 and others:
            ev, nrep = rng.choice(others)
            history.append(('other', client, ev, rng.randrange(nrep) if nrep else None))
        elif r < 0.72:
            history.append(('rebind', client))
        elif outs:
            history.append(('out', rng.choice(outs)))
    if outs:
        history.append(('out', rng.choice(outs)))
    return history


def exhaustive_histories(mci, outs, max_len):
    deny = next((i for i in range(mci['n_fields']) if i != mci['grant']), None)
    alphabet = []
    for c in ('A', 'B'):
        alphabet.append(('claim', c, mci['grant']))
        if deny is not None:
            alphabet.append(('claim', c, deny))
        alphabet.append(('release', c))
    alphabet.append(('out', outs[0]))
    for n in range(1, max_len + 1):
        for combo in itertools.product(alphabet, repeat=n):
            yield list(combo) + [('out', outs[0])]


def eval_program(arg) -> dict:
    seed, stream, scratch, tier = arg
    common.import_dznpy()
    # every other program: the granting enumerator X stands after an enumerator NotX
    prog, case, rng = progrun.make_program(PROP, seed, stream, scratch, True,
                                           mc_decoys='literal' if stream % 3 == 2 else 'both',
                                           mc_enum_family=stream % 2 == 1)
    out = {'violations': [], 'counts': {}}
    flavor = 'plain'
    if not progrun.build_or_report(prog, case, out, [flavor]):
        return progrun.finish_program(prog, out, case)
    mci = scripts.mc_info(prog)
    itf = prog.gen.interface_by_fqn(prog.info['ports'][mci['port']]['itf'])
    cx_outs = [e.name for e in itf.events if e.direction == 'out']
    others = []
    from ..cxxgen import Cxx  # pylint: disable=import-outside-toplevel
    cx = Cxx(prog.gen)
    for ev in itf.events:
        if ev.direction == 'in' and ev.name not in (mci['claim'], mci['release']):
            others.append((ev.name, cx.reply_info(ev.reply).get('n', 0)))
    cnt = out['counts']
    cnt['programs'] = 1
    cnt['granting_value_is_suffix_of_an_earlier_enumerator'] = int(any(
        f != case['cfg']['multiclient']['reply'][0] and f.endswith(case['cfg']['multiclient']['reply'][0])
        for f in mci.get('fields', [])))
    cnt['claim_event_literally_named_Claim'] = 1 if mci['claim'] == 'Claim' else 0
    cnt['decoy_events_present'] = 1 if any(o[0] in ('Claim', 'Release') for o in others) else 0
    if not cx_outs:
        return progrun.finish_program(prog, out, case, nontrivial=False)
    histories = []
    if stream == 0:
        histories += [(['B', 'A'] if seed % 2 else ['A', 'B'], h, True) for h in
                      exhaustive_histories(mci, cx_outs, 3 if tier == 'quick' else 4)]
    n_random = (300 if tier == 'quick' else 3000) if stream != 0 else (100 if tier == 'quick' else 500)
    for _ in range(n_random):
        clients = scripts.client_ids(rng, rng.randint(1, 5))
        histories.append((clients, rand_history(rng, mci, clients, others, cx_outs,
                                                rng.randint(1, 30)), False))
    deny = next((i for i in range(mci['n_fields']) if i != mci['grant']), None)
    if deny is not None:
        # long use of one shell: a hundred and thirty rounds in which a client whose claim was
        # denied lets go of what it never held, while the holder keeps receiving
        long_history = [('claim', 'A', mci['grant'])]
        for k in range(130):
            long_history += [('claim', 'B', deny), ('release', 'B'), ('out', cx_outs[k % len(cx_outs)])]
        long_history += [('release', 'A'), ('out', cx_outs[0])]
        histories.append((['A', 'B'], long_history, True))
        cnt['histories_of_hundreds_of_operations'] = 1
    for idx, (clients, history, exhaustive) in enumerate(histories):
        # every third random history starts before the shell is finally constructed
        final_at = 0 if (exhaustive or idx % 3) else rng.randint(0, len(history))
        if final_at:
            cnt['histories_starting_before_final_construction'] = \
                cnt.get('histories_starting_before_final_construction', 0) + 1
        first_out = next((i for i, o in enumerate(history) if o[0] == 'out'), len(history))
        bind_at = 0 if (exhaustive or idx % 2) else rng.randint(0, min(final_at, first_out))
        if bind_at:
            cnt['histories_with_handlers_connected_late'] = \
                cnt.get('histories_with_handlers_connected_late', 0) + 1
        script = history_script(prog, mci, clients, history, final_at, bind_at)
        saved = dict(cnt)
        log = progrun.run_and_collect(prog, script, flavor, 'hist', out, case)
        if log is None:
            continue
        viols, counts = judge_history(log, mci, history)
        for key, val in counts.items():
            cnt[key] = cnt.get(key, 0) + val
        cnt['histories'] = cnt.get('histories', 0) + 1
        cnt['histories_exhaustive_part'] = cnt.get('histories_exhaustive_part', 0) + (1 if exhaustive else 0)
        del saved
        for mech, detail in viols[:3]:
            detail.update(clients=clients, history=[list(o) for o in history][:40],
                          operations_before_final_construction=final_at)
            out['violations'].append({'mechanism': mech, 'detail': detail, 'case': case,
                                      'files': {'script.txt': script},
                                      'klass': mech + (':non-holder-release' if _non_holder_release(detail) else '')})
        if len(out['violations']) > 40:
            break
    example = next((h for _c, h, ex in histories if not ex and len(h) >= 5), None)
    sample = {'component': case['component'], 'multiclient': case['cfg']['multiclient'],
              'history_example': [list(o) for o in (example or [])][:14],
              'histories_run': cnt.get('histories', 0)}
    return progrun.finish_program(prog, out, case, sample=sample)


def _non_holder_release(detail) -> bool:
    """Witness shape of D9: the claim holder lost the selection because somebody else released."""
    last = detail.get('last_ops') or []
    holder = detail.get('holder')
    return any(o[0] == 'release' and o[1] != holder for o in last)


def main(tier: str) -> int:
    if not cxxlab.tools_available():
        raise common.Inconclusive('g++ / clang++-14 not available')
    run = common.Run(PROP, tier)
    n = 6 if tier == 'quick' else 40
    run.require('histories', 'histories_of_hundreds_of_operations', 'out_events_judged', 'in_events_judged', 'deliveries_to_holder',
                'handlers_reconnected', 'histories_with_handlers_connected_late',
                'granting_value_is_suffix_of_an_earlier_enumerator',
                'deliveries_to_nobody', 'decoy_events_present', 'histories_exhaustive_part')
    scratch = run.scratch()
    progrun.drive(run, eval_program, [(run.seed, i, scratch, tier) for i in range(n)])
    run.extra['exhaustive_part'] = 'program 0: every history of length <= %d over clients A, B and ' \
        'the operations claim-granted, claim-denied, release, out-event' % (3 if tier == 'quick' else 4)
    return run.finish(
        rule='multi-client shells over interfaces whose claim/release events have arbitrary names '
             'and formals (decoy events literally called Claim/Release, granting value = any '
             'enumerator, enum nested or at namespace level), 1-5 registered clients of structured '
             'identifiers in any registration order; every third random history starts before '
             'FinalConstruct(); histories '
             'of 1-30 operations (claim with scripted reply, release, other in-events, component '
             'out-events), one process per history; evaluations = programs',
        assumptions=['while a component has granted the claim to several clients at once the '
                     'statement\'s "the one" is not unique: such moments are judged leniently (at '
                     'most one delivery, inside the granted set); with exactly one holder left '
                     'the statement is applied literally',
                     'mock Dezyne runtime and scripted mock component are the trusted base'])


def replay(path: str) -> int:
    return replay_program(PROP, eval_program, path)
