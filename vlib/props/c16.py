"""C16 - parses are isolated and repeatable.

Monitor: histories.  A history is a sequence of 3..20 operations - construct a parser with a
document, construct an empty parser, load a document from a file into a live parser, call
process() - over 2..4 well-formed documents and up to 4 live DznJsonAst instances.  The result
of EVERY process() call is compared with what parsing that document alone yields.  The primary
reference is the expectation computed from the independent IR the document was projected from
(it never touched dznpy, so no amount of state inside dznpy can bend it); for one history in ten
the reference is literally "parsing it alone": one fresh child interpreter per document.
"""
import json
import os
import random
import shutil
import subprocess
import sys
import tempfile

from .. import caller
from .. import common
from .. import shellbuild
from .. import model as M
from ..modelgen import GenOpts, ModelGen

PROP = 'C16'
MAX_LIVE = 4
CHILD_EVERY = 10

_CHILD = r'''
import json, sys
sys.path.insert(0, sys.argv[1])
from vlib import common, model as M
common.import_dznpy()
from dznpy.json_ast import DznJsonAst
text = sys.stdin.read()
with common.quiet():
    fc = DznJsonAst(text).process()
json.dump(M.canon_filecontents(fc), sys.stdout)
'''


def make_opts(rng: random.Random) -> GenOpts:
    return GenOpts(
        max_ns_depth=rng.choice([0, 1, 2, 3]),
        max_ns_children=rng.choice([1, 2]),
        multi_id_ns=rng.choice([0.0, 0.3]),
        reopen_ns=rng.choice([0.0, 0.3]),
        reuse_names=rng.choice([0.0, 0.4, 0.8]),
        n_externs=(1, 3), n_enums=(0, 2), n_interfaces=(1, 3), n_events=(0, 4),
        n_formals=(0, 3), n_components=(0, 2), n_systems=(0, 1), n_foreigns=(0, 1),
        n_subints=(0, 2), n_provides=(0, 2), n_requires=(0, 2), n_injected=(0, 1),
        noise=rng.choice([0.0, 0.7]), global_component=0.3)


# ---------------------------------------------------------------------------------------------
# histories
# ---------------------------------------------------------------------------------------------

def gen_history(rng: random.Random, n_docs: int) -> list:
    """Operations over instance slots 0..3:
         ['new', slot, doc, 'str'|'bytes']   slot = DznJsonAst(<doc as text>)   (replaces the slot)
         ['new_empty', slot]                 slot = DznJsonAst()
         ['load', slot, doc]                 slot.load_file(<file holding doc>)
         ['process', slot]                   slot.process()
    """
    n_ops = rng.randint(3, 20)
    max_live = rng.randint(1, MAX_LIVE)
    style = rng.choice(['mixed', 'mixed', 'repeat', 'interleave'])
    live = []
    ops = []
    while len(ops) < n_ops:
        choices = []
        if not live:
            choices = [('new', 3), ('new_empty', 1)]
        else:
            choices = [('process', {'mixed': 5, 'repeat': 8, 'interleave': 5}[style]),
                       ('load', 2)]
            if len(live) < max_live:
                choices += [('new', {'mixed': 2, 'repeat': 1, 'interleave': 4}[style]),
                            ('new_empty', 0.7)]
            else:
                choices += [('renew', 0.6)]
        total = sum(w for _k, w in choices)
        roll = rng.random() * total
        kind = choices[-1][0]
        for name, weight in choices:
            roll -= weight
            if roll <= 0:
                kind = name
                break
        if kind in ('new', 'new_empty'):
            slot = min(s for s in range(MAX_LIVE) if s not in live)
            live.append(slot)
        elif kind == 'renew':
            slot = rng.choice(live)
            kind = rng.choice(['new', 'new', 'new_empty'])
        else:
            slot = rng.choice(live)
        if kind == 'new':
            ops.append(['new', slot, rng.randrange(n_docs), rng.choice(['str', 'bytes'])])
        elif kind == 'new_empty':
            ops.append(['new_empty', slot])
        elif kind == 'load':
            ops.append(['load', slot, rng.randrange(n_docs)])
        else:
            ops.append(['process', slot])
    return ops


def show_op(op: list) -> str:
    if op[0] == 'new':
        return f'i{op[1]} = DznJsonAst(doc{op[2]} as {op[3]})'
    if op[0] == 'new_empty':
        return f'i{op[1]} = DznJsonAst()'
    if op[0] == 'load':
        return f'i{op[1]}.load_file(doc{op[2]})'
    return f'i{op[1]}.process()'


malformed_variant = shellbuild.malformed_variant


def reshape_namespaces(model):
    """A copy of the model with every compound namespace name split into nested namespaces and
    every namespace that holds nothing but one namespace merged with it."""
    import copy  # pylint: disable=import-outside-toplevel
    model = copy.deepcopy(model)

    def redo(elements):
        out = []
        for e in elements:
            if isinstance(e, M.Namespace):
                inner = redo(e.elements)
                if len(e.name) >= 2:
                    node = M.Namespace([e.name[-1]], inner)
                    for ident in reversed(e.name[:-1]):
                        node = M.Namespace([ident], [node])
                    out.append(node)
                elif len(inner) == 1 and isinstance(inner[0], M.Namespace):
                    out.append(M.Namespace(list(e.name) + list(inner[0].name), inner[0].elements))
                else:
                    out.append(M.Namespace(list(e.name), inner))
            else:
                out.append(e)
        return out
    model.elements = redo(model.elements)
    return model


def mixed_spelling_model(rng: random.Random, pads: int) -> M.Model:
    """One document in which a namespace is opened twice, once as `My.Project` and once as `My`
    holding `Project`, with a further namespace inside it in both blocks, a type nested in an
    interface, a name reused in another scope - and `pads` other namespaces in between."""
    def block(tag):
        return [M.Namespace(['Detail'], [M.Extern([f'x{tag}'], 'int'), M.Enum([f'E{tag}'], ['A', 'B']),
                                         M.Interface([f'I{tag}'], [M.Enum(['Kind'], ['K1'])])]),
                M.Extern([f'y{tag}'], 'long'), M.SubInt([f'S{tag}'], 0, 3)]
    between = [M.Namespace([f'QZPad{k}'], [M.Extern(['x1' if k % 2 else f'p{k}'], 'int')] if k % 3 else [])
               for k in range(pads)]
    first = M.Namespace(['My', 'Project'], block(1))
    second = M.Namespace(['My'], [M.Namespace(['Project'], block(2))])
    if rng.random() < 0.5:
        first, second = M.Namespace(['My'], [M.Namespace(['Project'], block(1))]), \
            M.Namespace(['My', 'Project'], block(2))
    return M.Model([M.Import('other.dzn'), first] + between + [second, M.Enum(['E1'], ['Z'])])


def build_case(seed: int, stream: int) -> dict:
    rng = random.Random(f'{PROP}:{seed}:{stream}')
    n_docs = rng.randint(2, 4)
    docs, expects = [], []
    first_model = None
    for idx in range(n_docs):
        opts = make_opts(rng)
        if stream % 7 == 5 and idx == 0:
            opts.max_ns_depth, opts.multi_id_ns = 3, 0.6
        if stream % 6 == 4 and idx < 2:
            # two documents nested far deeper than the others: 33 and 40, 17 and 70 levels
            opts.chain_depth = [[33, 40], [17, 70], [34, 31]][(stream // 6) % 3][idx]
            opts.max_ns_depth, opts.noise = 1, 0.0
        gen = ModelGen(rng, opts).generate()
        first_model = first_model or gen.model
        docs.append(M.to_json(gen.model, decorate=rng.random() < 0.3, rng=rng))
        expects.append(M.expectations(gen.model))
    if stream % 6 == 2:
        # both spellings of one namespace inside one document, few or many namespaces between
        mixed = mixed_spelling_model(rng, [6, 140, 300][(stream // 6) % 3])
        docs[0], expects[0] = M.to_json(mixed), M.expectations(mixed)
    twin = None
    if stream % 7 == 5:
        # the same declarations under the same names, the namespaces written differently:
        # `namespace My.Project {}` where the other document nests `My { Project {} }`
        other = reshape_namespaces(first_model)
        twin = len(docs) - 1
        docs[twin] = M.to_json(other)
        expects[twin] = M.expectations(other)
    elif stream % 7 == 3:   # the same document twice: identical parses must not merge either
        docs[-1] = json.loads(json.dumps(docs[0]))
        expects[-1] = json.loads(json.dumps(expects[0]))
    empty = None
    if stream % 5 == 2:
        # an empty model file (a root without elements) is a document too
        docs.append(M.to_json(M.Model([])))
        expects.append(M.expectations(M.Model([])))
        empty = len(docs) - 1
    refused = None
    if stream % 4 == 1:
        # a document the parser refuses half-way through, deep inside its namespaces: what a
        # failed parse leaves behind in the instance must not leak into later parses
        docs.append(malformed_variant(docs[0]))
        expects.append(None)
        refused = len(docs) - 1
    ops = gen_history(rng, len(docs))
    slot = next((o[1] for o in ops if o[0] in ('new', 'new_empty')), 0)
    if refused is not None:
        # and for certain: refuse on an instance, then let the same instance parse good ones
        ops += [['load', slot, refused], ['process', slot], ['load', slot, 0], ['process', slot],
                ['new', slot, refused, 'str'], ['process', slot], ['load', slot, 1],
                ['process', slot]]
    if empty is not None:
        # and for certain: an instance that has parsed a full document is given the empty one
        ops += [['load', slot, 0], ['process', slot], ['load', slot, empty], ['process', slot],
                ['new', slot, 1, 'bytes'], ['process', slot], ['load', slot, empty],
                ['process', slot]]
    if stream % 6 == 2:
        ops += [['new', 0, 0, 'str'], ['process', 0], ['process', 0], ['process', 0],
                ['load', 0, 1], ['process', 0], ['load', 0, 0], ['process', 0], ['process', 0]]
    if stream % 6 == 4:
        # and for certain: the deep documents parsed again and again by one instance, and the
        # shallower one after the deeper one
        ops += [['new', 0, 0, 'str'], ['process', 0], ['process', 0], ['process', 0],
                ['load', 0, 1], ['process', 0], ['load', 0, 0], ['process', 0],
                ['load', 0, len(docs) - 1], ['process', 0]]
    if twin is not None:
        # and for certain: both spellings parsed in one process, in both orders
        ops += [['new', 0, 0, 'str'], ['process', 0], ['new', 1, twin, 'bytes'], ['process', 1],
                ['load', 0, twin], ['process', 0], ['load', 1, 0], ['process', 1]]
    return {'docs': docs, 'expects': expects, 'ops': ops,
            'child_ref': stream % CHILD_EVERY == 0, 'stream': stream,
            'paths': ['per-doc', 'one-file', 'relative'][stream % 3]}


# ---------------------------------------------------------------------------------------------
# references
# ---------------------------------------------------------------------------------------------

def child_parse(text: str):
    """Canonical parse of one document by a fresh instance in a fresh interpreter, or None."""
    env = dict(os.environ, PYTHONHASHSEED='0', PYTHONDONTWRITEBYTECODE='1',
               DZNPY_SRC=common.DZNPY_SRC)
    env.pop('PYTHONPATH', None)
    try:
        proc = subprocess.run([sys.executable, '-c', _CHILD, common.VERIF], input=text,
                              capture_output=True, text=True, env=env, timeout=120, check=False)
    except subprocess.TimeoutExpired:
        return None
    if proc.returncode != 0:
        return None
    try:
        return json.loads(proc.stdout)
    except ValueError:
        return None


def _interleaved(ops: list) -> set:
    """Indices of process() calls made while another instance is mid-life (it was used before
    and is used again afterwards)."""
    spans = {}       # incarnation id -> [first, last]
    inc_of = {}      # slot -> incarnation id
    owner = []
    for idx, op in enumerate(ops):
        if op[0] in ('new', 'new_empty'):
            inc_of[op[1]] = idx
        inc = inc_of[op[1]]
        owner.append(inc)
        spans.setdefault(inc, [idx, idx])[1] = idx
    return {idx for idx, op in enumerate(ops) if op[0] == 'process'
            and any(first < idx < last for inc, (first, last) in spans.items()
                    if inc != owner[idx])}


# ---------------------------------------------------------------------------------------------
# evaluation
# ---------------------------------------------------------------------------------------------

def eval_case(case: dict) -> dict:
    common.import_dznpy()
    from dznpy.json_ast import DznJsonAst, DznJsonError  # pylint: disable=import-outside-toplevel
    if 'docs' not in case:
        case = build_case(case['seed'], case['stream'])
    docs, expects, ops = case['docs'], case['expects'], [list(o) for o in case['ops']]
    texts = [json.dumps(d) for d in docs]
    res = {'violations': [], 'counts': {}}
    counts = res['counts']

    def count(key, n=1):
        counts[key] = counts.get(key, 0) + n

    refs = list(expects)
    ref_kind = ['ir'] * len(docs)
    if case.get('child_ref'):
        for idx, text in enumerate(texts):
            if expects[idx] is None:
                continue
            alone = child_parse(text)
            if alone is None:
                count('child_reference_failed')
                continue
            count('child_references')
            if common.first_diff(expects[idx], alone) is None:
                count('child_reference_equals_ir')
            else:
                count('child_reference_differs_from_ir')
            refs[idx], ref_kind[idx] = alone, 'child'

    history = [show_op(o) for o in ops]
    interleaved = _interleaved(ops)
    seen_mech = set()

    def report(mech, detail):
        count('failing_process_calls')
        if mech in seen_mech:
            return
        seen_mech.add(mech)
        res['violations'].append({'mechanism': mech, 'detail': detail, 'case': case})

    tmpdir = tempfile.mkdtemp(prefix='dznpy-verif-C16-')
    inst = {}           # slot -> {'obj', 'doc', 'nproc', 'docs_processed'}
    returned = []       # (FileContents object, canonical snapshot at return time, op index)
    max_live = 0
    twice = False
    try:
        for idx, op in enumerate(ops):
            kind, slot = op[0], op[1]
            if kind == 'new':
                text = texts[op[2]]
                with common.quiet():
                    obj = DznJsonAst(text.encode('utf-8') if op[3] == 'bytes' else text,
                                     verbose=common.verbose_for(text))
                inst[slot] = {'obj': obj, 'doc': op[2], 'nproc': 0, 'docs_processed': []}
                count('constructions')
                max_live = max(max_live, len(inst))
            elif kind == 'new_empty':
                with common.quiet():
                    obj = DznJsonAst(verbose=idx % 3 == 0)
                inst[slot] = {'obj': obj, 'doc': None, 'nproc': 0, 'docs_processed': []}
                count('constructions')
                max_live = max(max_live, len(inst))
            elif kind == 'load':
                # where the documents live is part of the history: a file per document, one
                # file name that is rewritten for every load (a regenerated model), or the
                # same relative name in different working directories
                paths = case.get('paths', 'per-doc')
                cwd = None
                if paths == 'one-file':
                    path = os.path.join(tmpdir, 'model.json')
                elif paths == 'relative':
                    cwd = os.path.join(tmpdir, f'dir{op[2]}')
                    os.makedirs(cwd, exist_ok=True)
                    path = os.path.join(cwd, 'model.json')
                else:
                    path = os.path.join(tmpdir, f'doc{op[2]}.json')
                old = open(path, encoding='utf-8').read() if os.path.exists(path) else None
                if old != texts[op[2]]:
                    with open(path, 'w', encoding='utf-8') as fh:
                        fh.write(texts[op[2]])
                    if old is not None:
                        count('files_rewritten_between_loads')
                with common.quiet():
                    if cwd is not None:
                        before = os.getcwd()
                        os.chdir(cwd)
                        try:
                            back = inst[slot]['obj'].load_file('model.json')
                            count('loads_by_relative_name')
                        finally:
                            os.chdir(before)
                    else:
                        back = inst[slot]['obj'].load_file(path)
                if back is not inst[slot]['obj']:
                    count('load_file_not_fluent')
                inst[slot]['doc'] = op[2]
                count('load_file_calls')
            else:
                state = inst[slot]
                state['nproc'] += 1
                nth = state['nproc']
                others = len(inst) - 1
                detail = {'history': history, 'failing_op': idx, 'op': history[idx],
                          'nth_process_on_instance': nth, 'repeat_on_same_instance': nth >= 2,
                          'other_instances_alive': others,
                          'documents_processed_on_instance_before':
                              [f'doc{d}' for d in state['docs_processed']],
                          'interleaved': idx in interleaved}
                if nth >= 2:
                    twice = True
                    count('repeats_on_same_instance')
                if idx in interleaved:
                    count('interleavings')
                if others:
                    count('process_calls_with_other_instances_alive')
                doc = state['doc']
                try:
                    with common.quiet():
                        fc = state['obj'].process()
                except DznJsonError as exc:
                    if doc is None:
                        count('no_document_refusals')
                    elif refs[doc] is None:
                        count('refusals_of_a_malformed_document')
                    else:
                        count('process_calls_compared')
                        report('process-result-differs:raised:DznJsonError',
                               dict(detail, message=str(exc)[:300], reference=ref_kind[doc]))
                except Exception as exc:  # pylint: disable=broad-except
                    info = common.classify_exception(exc)
                    if doc is None:
                        report(f'internal-exception:{info["type"]}', dict(detail, **info))
                    else:
                        count('process_calls_compared')
                        report(f'process-result-differs:raised:{info["type"]}',
                               dict(detail, reference=ref_kind[doc], **info))
                else:
                    try:
                        got = M.canon_filecontents(fc)
                    except Exception as exc:  # pylint: disable=broad-except
                        report(f'process-result-differs:unreadable:{type(exc).__name__}',
                               dict(detail, message=str(exc)[:300]))
                        continue
                    returned.append((fc, got, idx))
                    with common.quiet():
                        caller.after_parse(fc, observe_too=idx % 2 == 0)
                    if doc is None:
                        # nothing was loaded into this instance, yet it "parsed" something
                        entries = sum(len(v) for v in got.values())
                        report('process-result-differs:no-document-accepted',
                               dict(detail, entries_returned=entries))
                        continue
                    if refs[doc] is None:
                        count('malformed_document_accepted')     # C15's business, not judged here
                        continue
                    state['docs_processed'].append(doc)
                    count('process_calls_compared')
                    count('entries_compared', sum(len(v) for v in refs[doc].values()))
                    diff = common.first_diff(refs[doc], got)
                    if diff:
                        mech = (f'process-result-differs:{diff["kind"]}:'
                                f'{common.strip_indices(diff["path"])}')
                        report(mech, dict(detail, diff=diff, document=f'doc{doc}',
                                          reference=ref_kind[doc]))
        # a result that was handed out keeps what it held: the caller parses all its models
        # first and works with the results afterwards - a later parse (by the same or another
        # parser object) that rewrites an earlier result makes that result depend on it
        for fc, snap, at in returned:
            count('kept_results_compared_again_at_the_end')
            try:
                diff = common.first_diff(snap, M.canon_filecontents(fc))
            except Exception as exc:  # pylint: disable=broad-except
                diff = {'kind': 'unreadable', 'path': '', 'message': str(exc)[:200]}
            if diff is not None:
                report(f'kept-result-changed-by-later-operations:{diff["kind"]}:'
                       f'{common.strip_indices(diff["path"])}',
                       {'history': history, 'result_of_op': at, 'op': history[at], 'diff': diff})
    finally:
        shutil.rmtree(tmpdir, ignore_errors=True)

    count('histories')
    count(f'history_live_max_{max_live}')
    res['nontrivial'] = max_live >= 2 and twice
    res['digest'] = common.digest({'docs': docs, 'ops': ops})
    res['sample'] = {'history': history, 'documents': len(docs), 'max_live': max_live,
                     'child_reference': bool(case.get('child_ref')),
                     'violations': [v['mechanism'] for v in res['violations']]}
    return res


def eval_serial(arg) -> dict:
    """Parse-and-forget series: documents that share their inner namespace and declaration
    names but differ in the outer namespace are parsed one after the other, each parser and
    result released (and collected) before the next.  Whatever a parse remembers by object
    identity or by local name shows up in a later result."""
    import copy  # pylint: disable=import-outside-toplevel
    import gc    # pylint: disable=import-outside-toplevel
    from ..modelgen import ModelGen, fresh  # pylint: disable=import-outside-toplevel
    from .. import model as M               # pylint: disable=import-outside-toplevel
    seed, stream = arg
    common.import_dznpy()
    from dznpy.json_ast import DznJsonAst   # pylint: disable=import-outside-toplevel
    rng = random.Random(f'{PROP}:serial:{seed}:{stream}')
    out = {'violations': [], 'counts': {}}
    cnt = out['counts']
    base = None
    for _ in range(50):
        opts = make_opts(rng)
        opts.max_ns_depth = max(2, opts.max_ns_depth)
        opts.noise = 0.0
        gen = ModelGen(rng, opts).generate()
        tops = [e for e in gen.model.elements if isinstance(e, M.Namespace) and e.elements]
        if tops:
            base = gen
            break
    if base is None:
        out.update(digest=f'serial-{seed}-{stream}', nontrivial=False)
        return out
    variants = []
    taken = set()
    for _v in range(6):
        model = copy.deepcopy(base.model)
        for e in model.elements:
            if isinstance(e, M.Namespace):
                e.name = [fresh(rng, taken, 'camel')] + e.name[1:]
        variants.append((json.dumps(M.to_json(model)), M.expectations(model)))
    history = {'kind': 'serial', 'documents': [json.loads(v[0]) for v in variants]}
    for round_no in range(60):
        idx = rng.randrange(len(variants))
        text, want = variants[idx]
        with common.quiet():
            parser = DznJsonAst(text if round_no % 2 else text.encode('utf-8'))
            fc = parser.process()
        got = M.canon_filecontents(fc)
        cnt['serial_parses_compared'] = cnt.get('serial_parses_compared', 0) + 1
        diff = common.first_diff(want, got)
        del parser, fc
        gc.collect()
        if diff:
            out['violations'].append({
                'mechanism': 'process-result-differs:after-released-parses:' +
                             common.strip_indices(diff['path']),
                'detail': {'round': round_no, 'diff': diff}, 'case': history,
                'klass': 'process-result-differs:after-released-parses'})
            break
    out['digest'] = common.digest(history)
    out['nontrivial'] = True
    out['sample'] = {'kind': 'serial', 'documents': len(variants), 'rounds': 60}
    return out


def _worker(arg):
    seed, stream = arg
    return eval_case(build_case(seed, stream))


def main(tier: str) -> int:
    run = common.Run(PROP, tier)
    n = 200 if tier == 'quick' else 20000
    run.require('process_calls_compared', 'repeats_on_same_instance', 'interleavings',
                'kept_results_compared_again_at_the_end',
                'load_file_calls', 'child_references', 'no_document_refusals',
                'files_rewritten_between_loads', 'loads_by_relative_name',
                'refusals_of_a_malformed_document')
    for item, res in run.pmap(_worker, [(run.seed, i) for i in range(n)], chunksize=2):
        common.absorb(run, {'seed': item[0], 'stream': item[1]}, res)
    run.require('serial_parses_compared')
    for item, res in run.pmap(eval_serial, [(run.seed, i) for i in range(16 if tier == 'quick' else 200)]):
        common.absorb(run, {'seed': item[0], 'stream': item[1], 'kind': 'serial'}, res)
    return run.finish(
        rule='histories of 3..20 operations (DznJsonAst(doc as str|bytes), DznJsonAst(), '
             'load_file, process) over 2..4 well-formed documents and 1..4 live instances; every '
             'process() result is canonicalised through public fields and compared with the '
             "document's expectation from the independent IR (one history in ten: with the parse "
             'of a fresh instance in a fresh child interpreter, one child per document); '
             'process() without a document must raise DznJsonError; distinct = digest of '
             'documents + operations; non-trivial = at least two instances alive at once and at '
             'least one instance processed twice',
        assumptions=['parsing a well-formed document alone yields the IR expectation (property '
                     'C05); the child-interpreter references re-establish this for a tenth of '
                     'the histories (counter child_reference_equals_ir)',
                     'an earlier returned FileContents object changing under later operations is '
                     'counted (earlier_result_mutated) but not judged: the statement speaks of '
                     'the result of each parse, observed when process() returns',
                     'histories are sequential (one thread)'])


def replay(path: str) -> int:
    return common.generic_replay(PROP, eval_case, path)
