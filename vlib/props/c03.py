"""C03 - port configuration gives every exposed port exactly one semantics or is rejected.

Monitor: return/exception observer over the real PortsCfg construction, PortsCfg.match and
Builder.build, decided by the three-valued reference matcher vlib.refcfg.  Small scopes are
enumerated exhaustively (per side and for the provides x requires product of a reduced
universe); larger ones are sampled.
"""
import copy
import itertools
import json
import random
import zlib

from .. import cfggen
from .. import common
from .. import model as M
from .. import refcfg
from .. import shellbuild

PROP = 'C03'
_SHARED = {}   # per worker process: component shape -> (parsed model, Builder)
WILD = ['ALL', 'NONE', 'REMAINING']


def component_model(provides, requires, injected, order=0):
    """A tiny model: one interface, a component C with the given port names."""
    itf = M.Interface(['I'], [M.Enum(['Ans'], ['Yes', 'No'])], [
        M.Event('go', 'in', M.Ref(['bool']), [M.Formal('x', M.Ref(['T'], 'T'), 'in')]),
        M.Event('take', 'in', M.Ref(['Ans'], 'N.I.Ans'), []),
        M.Event('drop', 'in', M.Ref(['void']), []),
        M.Event('done', 'out', M.Ref(['void']), [M.Formal('y', M.Ref(['T'], 'T'), 'in')])])
    ports = [M.Port(n, M.Ref(['I'], 'N.I'), 'provides') for n in provides]
    ports += [M.Port(n, M.Ref(['N', 'I'], 'N.I'), 'requires') for n in requires]
    ports += [M.Port(n, M.Ref(['I'], 'N.I'), 'requires', injected=True) for n in injected]
    # the order in which a component declares its ports is an input: directions interleaved
    random.Random(order).shuffle(ports)
    return M.Model([M.Extern(['T'], 'int'),
                    M.Namespace(['N'], [itf, M.Component(['C'], ports)])])


def selections(universe):
    """3 wildcards + every non-empty subset of the universe."""
    out = list(WILD)
    for k in range(1, len(universe) + 1):
        out.extend([list(c) for c in itertools.combinations(universe, k)])
    return out


def eval_case(case: dict) -> dict:
    """case: {'provides': [...], 'requires': [...], 'injected': [...],
              'psel': {'sts','mts'}, 'rsel': {'sts','mts'}, 'level': 'match'|'build'}"""
    common.import_dznpy()
    from dznpy.adv_shell.types import AdvShellError  # pylint: disable=import-outside-toplevel
    out = {'violations': [], 'counts': {}}
    cnt = out['counts']
    verdict, reason, mapping = refcfg.judge(case['psel'], case['rsel'], case['provides'],
                                            case['requires'], case['injected'])
    reason_kind = reason.split(':')[0] + ':' + reason.split(':')[1].strip().split(' [')[0] \
        if ':' in reason else reason
    reason_kind = ''.join(ch for ch in reason_kind if not ch.isdigit())
    reason_kind = reason_kind.split(": ['")[0]
    if case.get('mc') and verdict != refcfg.REJECT:
        cnt['configurations_with_a_multiclient_port'] = 1
        if mapping is None or mapping.get(case['mc']['port']) != 'MTS':
            # arbitration needs the dispatcher: a multi-client port under STS is refused
            verdict, reason = refcfg.REJECT, 'multi-client port is not multi-threaded'
            reason_kind = reason
    cnt[f'ref_{verdict}'] = 1
    if case.get('wide'):
        cnt[f'wide_components_ref_{verdict}'] = 1
    exposed = case['provides'] + case['requires']

    def viol(mech, **detail):
        detail.update(ref_verdict=verdict, ref_reason=reason)
        out['violations'].append({'mechanism': mech, 'detail': detail, 'case': case})

    enc = {'encapsulee': 'N.C', 'filename': 'Model.dzn', 'suffix': 'Shell',
           'names_as': case.get('names_as', 'set'),
           'provides': case['psel'], 'requires': case['rsel'], 'multiclient': case.get('mc'),
           'origin': case.get('origin', 'create'), 'copyright': 'c', 'creator': None,
           'prefix': None}
    got_map = None
    files = None
    exc_info = None
    other_container = case.get('names_as', 'set') != 'set' and any(
        isinstance(sel, list) for side in (case['psel'], case['rsel']) for sel in side.values())
    try:
        try:
            pcfg = shellbuild.make_ports_cfg(enc)
        except Exception as exc:  # pylint: disable=broad-except
            info = common.classify_exception(exc)
            if other_container and info['class'] != 'INTERNAL':
                # names in another container than a set: refusing them outright (the library
                # does, with a TypeError) is one of the two answers; the other one is to
                # treat them like the set
                cnt[f'names_as_{case["names_as"]}_refused_at_construction'] = 1
                out['digest'] = common.digest(case)
                out['nontrivial'] = False
                out['sample'] = case
                return out
            raise
        if other_container:
            cnt[f'names_as_{case["names_as"]}_accepted'] = 1
        if zlib.crc32(json.dumps(case, sort_keys=True, default=str).encode()) % 2:
            # one rule object looped over several components: it has matched another
            # component's ports (and possibly refused them) before it meets these
            for decoy in (({'QZdecoy'}, {'QZother'}),
                          (set(case['requires']), set(case['provides'] + case['injected']))):
                try:
                    pcfg.match(*decoy)
                except Exception:  # pylint: disable=broad-except
                    pass
            cnt['ports_cfg_object_matched_other_ports_first'] = 1
        matched = pcfg.match(set(case['provides']), set(case['requires'] + case['injected']))
        got_map = {k: ('STS' if v.name == 'STS' else 'MTS') for k, v in matched.value.items()}
        cnt['match_calls'] = 1
        if case['level'] == 'build':
            shape = (tuple(case['provides']), tuple(case['requires']), tuple(case['injected']),
                     case.get('port_order', 0))
            if case.get('shared') and shape in _SHARED:
                # one Builder and one parsed model serving many configurations in a row
                fc, builder = _SHARED[shape]
                cnt['builds_on_reused_builder_and_model'] = 1
            else:
                fc = shellbuild.parse_doc(M.to_json(component_model(
                    case['provides'], case['requires'], case['injected'],
                    order=case.get('port_order', 0))))
                from dznpy.adv_shell import Builder  # pylint: disable=import-outside-toplevel
                builder = Builder()
                _SHARED[shape] = (fc, builder)
            files = shellbuild.build_files(enc, fc, builder=builder, ports_cfg=pcfg)
            cnt['builds'] = 1
    except Exception as exc:  # pylint: disable=broad-except
        exc_info = common.classify_exception(exc)
        exc_info['is_advshell'] = isinstance(exc, AdvShellError)
    if exc_info is not None:
        cnt[f'outcome_{exc_info["class"]}'] = 1
        if exc_info['class'] == 'INTERNAL':
            viol(f'internal-error:{exc_info["type"]}@{exc_info["where"]}', reason_kind=reason_kind,
                 **exc_info)
        elif verdict == refcfg.ACCEPT:
            viol(f'must-accept-rejected:{exc_info["type"]}', **exc_info)
        elif verdict == refcfg.REJECT and not exc_info['is_advshell']:
            cnt['rejected_with_other_diagnosed_error'] = 1
            if exc_info['class'] != 'LIBRARY':
                # "rejected with a configuration error": one of the library's own error types
                viol(f'rejected-with-foreign-error-type:{exc_info["type"]}@{exc_info["where"]}',
                     reason_kind=reason_kind, **exc_info)
    else:
        cnt['outcome_success'] = 1
        if case['level'] == 'match':
            # match alone does not see exposure; an uncovered port may legitimately be missing
            # here and must then be refused by the build - only judge what match can know
            if verdict == refcfg.REJECT and 'without semantics' not in reason:
                viol(f'must-reject-accepted-by-match:{reason_kind}')
            if mapping is not None:
                got_exposed = {k: v for k, v in got_map.items() if k in exposed}
                want = {k: v for k, v in mapping.items()}
                if verdict != refcfg.REJECT and got_exposed != want:
                    viol('match-semantics-differ', want=want, got=got_exposed)
        else:
            if verdict == refcfg.REJECT:
                viol(f'must-reject-accepted:{reason_kind}', files=[f[0] for f in files])
            names = [f[0] for f in files]
            if sorted(names) != sorted(shellbuild.expected_filenames(enc)):
                viol('file-set-differs', got=names)
            header = next((f[1] for f in files if f[0] == shellbuild.shell_name(enc) + '.hh'),
                          files[0][1])
            acc = shellbuild.accessors_in_header(header)
            if exposed and not acc:
                # the textual pattern found nothing at all: the layout of the header changed;
                # accessor types are then left to the compiled static_asserts of C02/C06/C07
                cnt['textual_accessor_extraction_failed'] = 1
                acc = None
            got_acc = {}
            for a in acc or []:
                key = a['cap']
                got_acc.setdefault(key, []).append((a['direction'], a['semantics']))
            cnt['headers_inspected'] = 1
            for name in case['injected'] if acc is not None else []:
                if shellbuild.cap(name) in got_acc:
                    viol('injected-port-exposed', port=name)
            for name in exposed if acc is not None else []:
                entries = got_acc.get(shellbuild.cap(name), [])
                if len(entries) != 1:
                    viol('exposed-port-accessor-count', port=name, entries=entries)
                elif verdict != refcfg.REJECT and mapping is not None:
                    if verdict == refcfg.UNSPECIFIED:
                        cnt['semantics_compared_on_open_acceptance'] = 1
                    want_dir = 'Provides' if name in case['provides'] else 'Requires'
                    if entries[0] != (want_dir, mapping[name]):
                        viol('accessor-semantics-differ', port=name, want=mapping[name],
                             got=entries[0])
            extra = set(got_acc) - {shellbuild.cap(n) for n in exposed}
            if extra and acc is not None:
                viol('extra-accessor', extra=sorted(extra))
    out['digest'] = common.digest(case)
    out['nontrivial'] = len(exposed) >= 2 and (isinstance(case['psel']['sts'], list)
                                               or isinstance(case['psel']['mts'], list)
                                               or isinstance(case['rsel']['sts'], list)
                                               or isinstance(case['rsel']['mts'], list))
    out['sample'] = case
    return out


def gen_cases(tier: str, rng: random.Random):
    nmax = 2 if tier == 'quick' else 3
    # port names in the shapes an identifier can take: leading underscore, capitals, digits
    pnames, rnames = ['_pa', 'pb', 'P_c9'][:nmax], ['ra', '_rb', 'rC_'][:nmax]
    psels = selections(pnames + ['zz'])
    rsels = selections(rnames + ['zz', 'inj'])
    valid_p = {'sts': 'NONE', 'mts': 'ALL'}
    valid_r = {'sts': 'ALL', 'mts': 'NONE'}
    shapes = [(pnames[:k], rnames[:m], inj) for k in range(nmax + 1) for m in range(nmax + 1)
              for inj in ([], ['inj'])]
    cases = []
    # exhaustive per side, both at match and at build level
    for prov, req, inj in shapes:
        for level in ('match', 'build'):
            if req == rnames[:1] and not inj:     # vary provides against one requires shape
                for s, m in itertools.product(psels, psels):
                    cases.append({'provides': prov, 'requires': req, 'injected': inj,
                                  'psel': {'sts': s, 'mts': m}, 'rsel': valid_r, 'level': level})
            if prov == pnames[:1]:                # vary requires against one provides shape
                for s, m in itertools.product(rsels, rsels):
                    cases.append({'provides': prov, 'requires': req, 'injected': inj,
                                  'psel': valid_p, 'rsel': {'sts': s, 'mts': m}, 'level': level})
    exhaustive = len(cases)
    # product of both sides, sampled
    n_prod = 4000 if tier == 'quick' else 300000
    for _ in range(n_prod):
        prov, req, inj = rng.choice(shapes)
        cases.append({'provides': prov, 'requires': req, 'injected': inj,
                      'psel': {'sts': rng.choice(psels), 'mts': rng.choice(psels)},
                      'rsel': {'sts': rng.choice(rsels), 'mts': rng.choice(rsels)},
                      'level': 'build', 'origin': rng.choice(['create', 'import'])})
    # the two sides related: names of one side (or of an injected port) used on the other, the
    # same selection written on both sides, the mirrored one
    n_cross = 3000 if tier == 'quick' else 150000
    for i in range(n_cross):
        prov, req, inj = rng.choice(shapes)
        sels = selections(prov + req + inj + ['zz'])
        psel = {'sts': rng.choice(sels), 'mts': rng.choice(sels)}
        union = prov + req
        if union and i % 2:
            # a selection that would be a proper assignment if the sides were one
            some = sorted(rng.sample(union, rng.randint(1, len(union))))
            rest = sorted(set(union) - set(some))
            psel = {'sts': some, 'mts': rng.choice([rest or 'NONE', 'REMAINING', 'NONE'])}
            if rng.random() < 0.5:
                psel = {'sts': psel['mts'], 'mts': psel['sts']}
        how = i % 3
        rsel = copy.deepcopy(psel) if how == 0 else \
            {'sts': psel['mts'], 'mts': psel['sts']} if how == 1 else \
            {'sts': rng.choice(sels), 'mts': rng.choice(sels)}
        cases.append({'provides': prov, 'requires': req, 'injected': inj, 'psel': psel,
                      'rsel': rsel, 'level': 'build' if (i // 2) % 2 else 'match',
                      'related': ['equal', 'mirrored', 'shared-universe'][how]})
    # configurations that must be accepted, in every spelling the language has (the families
    # above are dominated by rejections)
    n_valid = 3000 if tier == 'quick' else 150000
    for i in range(n_valid):
        prov, req, inj = rng.choice(shapes)
        cases.append({'provides': prov, 'requires': req, 'injected': inj,
                      'psel': cfggen.rand_side(rng, prov, uniform=rng.choice(['STS', 'MTS'])),
                      'rsel': cfggen.rand_side(rng, req),
                      'level': 'build' if i % 2 else 'match',
                      'origin': rng.choice(['create', 'import'])})
    # with a multi-client provides port configured: every rule still applies (mixing among the
    # provides ports above all), and the arbitered port itself must come out multi-threaded
    for prov, req, inj in shapes:
        if not prov:
            continue
        mc = {'port': prov[0], 'claim': 'take', 'reply': ['Yes'], 'release': 'drop'}
        for s_sel, m_sel in itertools.product(psels, psels):
            cases.append({'provides': prov, 'requires': req, 'injected': inj, 'mc': mc,
                          'psel': {'sts': s_sel, 'mts': m_sel},
                          'rsel': cfggen.rand_side(rng, req), 'level': 'build'})
    # beyond the small scope: 4-6 names per side
    n_big = 1000 if tier == 'quick' else 100000
    for _ in range(n_big):
        k, m = rng.randint(0, 6), rng.randint(0, 6)
        prov = [f'p{i}' for i in range(k)]
        req = [f'r{i}' for i in range(m)]
        inj = ['inj'] if rng.random() < 0.4 else []

        def rsel(names, extra):
            if rng.random() < 0.4:
                return rng.choice(WILD)
            pool = names + extra
            return sorted(rng.sample(pool, rng.randint(1, len(pool))))
        cases.append({'provides': prov, 'requires': req, 'injected': inj,
                      'psel': {'sts': rsel(prov, ['zz']), 'mts': rsel(prov, ['zz'])},
                      'rsel': {'sts': rsel(req, ['zz'] + inj), 'mts': rsel(req, ['zz'] + inj)},
                      'level': 'build'})
    # wide components: 10-14 ports on a side, (nearly) all of them named explicitly - and the one
    # name the component does not have sorts first, in the middle, after the tenth, last
    n_wide = 60 if tier == 'quick' else 3000
    for i in range(n_wide):
        k = 10 + i % 5
        prov = [f'p{j:02d}' for j in range(k if i % 2 == 0 else 1 + i % 3)]
        req = [f'r{j:02d}' for j in range(k if i % 2 else 1 + i % 3)]
        side, names = ('p', prov) if i % 2 == 0 else ('r', req)
        pos = (i // 2) % (len(names) + 1)
        unknown = ['a_first', 'zz_last', None, f'{side}{min(pos, len(names) - 1):02d}x',
                   f'{side}{len(names) - 1:02d}_'][(i // 10) % 5]
        named = list(names) + ([unknown] if unknown else [])
        rng.shuffle(named)
        if len(named) > 3 and i % 3 == 0:
            # split over both semantics (requires side only: provides must be uniform)
            cut = rng.randint(1, len(named) - 1)
            wide = {'sts': sorted(named[:cut]), 'mts': sorted(named[cut:])} if side == 'r' else \
                {'sts': 'NONE', 'mts': sorted(named)}
        else:
            wide = {'sts': sorted(named), 'mts': 'NONE'} if side == 'r' else \
                {'sts': 'NONE', 'mts': sorted(named)}
        cases.append({'provides': prov, 'requires': req, 'injected': [],
                      'psel': wide if side == 'p' else {'sts': 'NONE', 'mts': 'ALL'},
                      'rsel': wide if side == 'r' else {'sts': 'ALL', 'mts': 'NONE'},
                      'level': 'build' if i % 4 < 2 else 'match', 'wide': True})
    return cases, exhaustive


def _worker(chunk):
    agg = {'violations': [], 'counts': {}, 'cases': []}
    before = dict(shellbuild.STATS)
    for idx, case in enumerate(chunk):
        case = dict(case, shared=idx % 3 != 0)
        if idx % 5 == 4:
            case['names_as'] = ['frozenset', 'list', 'tuple', 'keys'][(idx // 5) % 4]
        case.setdefault('port_order', zlib.crc32(json.dumps(case, sort_keys=True).encode()) % 6)
        res = eval_case(case)
        for key, val in res['counts'].items():
            agg['counts'][key] = agg['counts'].get(key, 0) + val
        agg['violations'].extend(res['violations'])
        agg['cases'].append((res['digest'], res['nontrivial']))
    for key, val in shellbuild.STATS.items():
        agg['counts'][f'configured_{key}'] = agg['counts'].get(f'configured_{key}', 0) + \
            val - before.get(key, 0)
    agg['sample'] = chunk[len(chunk) // 2] if chunk else None
    return agg


def main(tier: str) -> int:
    run = common.Run(PROP, tier)
    cases, exhaustive = gen_cases(tier, run.rng('cases'))
    run.extra['exhaustive_part'] = {
        'cases': exhaustive,
        'what': 'every (sts, mts) selection pair (3 wildcards or any non-empty subset of the '
                "side's names + one unknown name + (requires side) one injected name) for one "
                'side against every component shape, at match and at build level, with the other '
                f'side fixed to a valid selection; names per side <= {2 if tier == "quick" else 3}'}
    run.require('match_calls', 'builds', 'builds_on_reused_builder_and_model',
                'ports_cfg_object_matched_other_ports_first', 'configured_via_constructor_positional',
                'wide_components_ref_accept', 'wide_components_ref_reject', 'headers_inspected', 'ref_accept', 'ref_reject',
                'configured_via_preset_all_mts', 'configured_via_preset_all_sts',
                'configured_via_preset_all_sts_all_mts', 'configured_via_preset_all_mts_all_sts',
                'configured_via_preset_all_mts_mixed_ts', 'configured_via_preset_all_sts_mixed_ts',
                'configured_via_constructor', 'configurations_with_a_multiclient_port',
                'ref_unspecified')
    chunks = [cases[i:i + 400] for i in range(0, len(cases), 400)]
    for _item, res in run.pmap(_worker, chunks):
        if 'harness_error' in res:
            run.mark_inconclusive('harness error: ' + res['harness_error'][-300:])
            continue
        for dig, nontrivial in res['cases']:
            run.case(dig, nontrivial)
        if res['sample'] and len(run.samples) < run.max_samples:
            run.samples.append(common.jsonable(res['sample']))
        run.merge_counts(res['counts'])
        for v in res['violations']:
            run.violation(v['mechanism'], v.get('detail'), v.get('case'))
    return run.finish(
        rule='port-selection pairs per side enumerated exhaustively over a small universe '
             '(see exhaustive_part) + sampled provides x requires products + sampled 0-6 names '
             'per side; each judged ACCEPT / REJECT / UNSPECIFIED by vlib.refcfg and compared '
             'with PortsCfg construction, PortsCfg.match and Builder.build (accessor set and '
             'Sts/Mts types read from the emitted header); non-trivial = >=2 exposed ports and '
             'at least one explicit name set; distinct = digest of the case',
        exhaustive=False,
        assumptions=['UNSPECIFIED (same wildcard for both semantics, empty sets, a name that '
                     'matches only an injected or other-side port, both provides selections '
                     'non-empty but uniform effect) accepts any outcome but an internal error',
                     'accessor extraction from the header is textual here; C06/C02 compile it'])


def replay(path: str) -> int:
    return common.generic_replay(PROP, eval_case, path)
