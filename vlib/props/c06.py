"""C06 - generated files form valid, self-contained C++ for every model and configuration.

Monitor: compile-and-link oracle.  The files a successful build returned are written out
unmodified next to the mock Dezyne runtime and a mock of the Dezyne-generated model header, and
the compiler decides: every header alone, twice, all headers in several orders, the shell used
from a translation unit other than its own source (linked and run), two shells of one prefix in
one translation unit, and two file sets with different prefixes in one program.
"""
import os
import random
import re
import shutil

from .. import cfggen
from .. import common
from .. import cxxgen
from .. import cxxlab
from .. import model as M
from .. import refcfg
from .. import shellbuild
from ..modelgen import GenOpts, ModelGen

PROP = 'C06'
INCLUDE_RE = re.compile(r'^\s*#\s*include\s*"([^"]+)"', re.M)


def special_case(rng: random.Random, kind: str):
    """Model shapes the quantifier names explicitly."""
    gen = ModelGen(rng, GenOpts(max_ns_depth=2, n_externs=(1, 2)))
    gen.build_skeleton()
    gen.add_extern()
    empty = gen.add_interface()           # an interface without events
    empty[1].types = [t for t in empty[1].types]
    other = gen.add_interface()
    gen.fill_events(other, n_events=3)
    if kind == 'global-component':
        ent = gen.add_component('component', node=gen.root, n_provides=1, n_requires=1,
                                n_injected=0)
    elif kind == 'no-ports':
        ent = gen.add_component('component', n_provides=0, n_requires=0, n_injected=0)
    elif kind == 'only-injected':
        ent = gen.add_component('component', n_provides=0, n_requires=0, n_injected=2)
    elif kind == 'global-everything':
        gen2 = ModelGen(rng, GenOpts(max_ns_depth=0, n_externs=(1, 2)))
        gen2.add_extern()
        itf = gen2.add_interface()
        gen2.fill_events(itf, n_events=3)
        ent = gen2.add_component('component', node=gen2.root, n_provides=1, n_requires=1,
                                 n_injected=0)
        gen = gen2
    elif kind == 'component-named-like-its-namespace':
        # namespace Toaster { component Toaster } - and Acme.Kitchen.Acme one level deeper
        nodes = [n for n in gen.nodes if n.fqn]
        if not nodes:
            return None
        node = rng.choice(nodes)
        ent = gen.add_component('component', node=node, n_provides=1, n_requires=1, n_injected=0)
        fqn, comp, _node = ent
        twin = node.fqn[0]
        if twin in node.taken or any(p.name.lower() == twin.lower() for p in comp.ports):
            return None
        comp.name = [twin]
        new_ent = (node.fqn + [twin], comp, node)
        gen.components[gen.components.index(ent)] = new_ent
        ent = new_ent
    else:  # empty-interface ports
        ent = gen.add_component('component', n_provides=2, n_requires=2, n_injected=0)
    if not gen.respell_all():
        return None
    enc = cfggen.rand_cfg(rng, gen, ent, multiclient=False, hostile_text=True)
    return gen, ent, enc, cfggen.comp_info(gen, ent)


HOSTILE_FORMALS = ['identifier', 'r', 'lockAndData', 'm_dispatcher', 'm_encapsulee']


def hostile_case(rng: random.Random, which: str):
    """Inputs of the known findings D11/D12: identifiers that collide with names the shell itself
    uses.  Kept out of every other generator; drawn here once per run so that the findings stay
    visible (KNOWN-FINDING lines) and a different failure on such input is still reported."""
    import copy  # pylint: disable=import-outside-toplevel
    from .. import model as MM  # pylint: disable=import-outside-toplevel
    gen, ent, enc, info = cfggen.gen_shell_case(rng, want_multiclient=True)
    gen = copy.deepcopy(gen)
    ent = next(e for e in gen.components if e[0] == ent[0])
    mc = enc['multiclient']
    if which == 'port-name-case':
        comp = ent[1]
        src = next(p for p in comp.ports if p.name != mc['port'] and not p.injected) \
            if any(p.name != mc['port'] and not p.injected for p in comp.ports) else None
        if src is None:
            return None
        twin = src.name[0].swapcase() + src.name[1:]
        if twin == src.name or any(p.name == twin for p in comp.ports):
            return None
        comp.ports.append(MM.Port(twin, MM.Ref(list(src.type.ids), src.type.target), src.direction))
        enc = dict(enc, provides={'sts': 'NONE', 'mts': 'ALL'}, requires={'sts': 'NONE', 'mts': 'ALL'})
        hostile = 'port-name-case-collision'
    else:
        itf = gen.interface_by_fqn(info['ports'][mc['port']]['itf'])
        ext = gen.externs[0]
        for ev in itf.events:
            if ev.formals:
                ev.formals[0].name = which
            else:
                ref = gen._ref(info['ports'][mc['port']]['itf'].split('.'), ext[0], 'externs')
                if ref is None:
                    return None
                ev.formals.append(MM.Formal(which, ref, 'in'))
        hostile = 'formal-name:' + which
    return gen, ent, enc, cfggen.comp_info(gen, ent), hostile


def make_case(seed: int, stream: int):
    rng = random.Random(f'{PROP}:{seed}:{stream}')
    kinds = ['global-component', 'no-ports', 'only-injected', 'empty-interface',
             'global-everything', 'component-named-like-its-namespace']
    if stream < len(kinds):
        for _ in range(20):
            got = special_case(rng, kinds[stream])
            if got:
                return got + (kinds[stream],)
    wmc = stream % 3 == 2
    twins = stream % 6 == 1     # same-named externs in unrelated namespaces behind two ports
    if twins and stream % 12 == 7:
        twins = 'same-names'
    # where the multi-client port stands among the provides ports is cycled, not left to chance
    gen, ent, enc, info = cfggen.gen_shell_case(rng, want_multiclient=wmc, hostile_text=True,
                                                mc_shape=stream // 3, twins=twins,
                                                mc_position=['first', 'middle', 'last'][(stream // 3) % 3]
                                                if wmc else None, big=stream % 7 == 6)
    if stream % 7 == 3:
        # a model file named by its author: the base name is no C++ identifier
        enc['filename'] = ['my-model.dzn', 'dir/2nd.dzn', 'toaster.v2.dzn', 'a b.json'][(stream // 7) % 4]
    if twins:
        enc['provides'] = {'sts': 'NONE', 'mts': 'ALL'}
        enc['requires'] = {'sts': 'NONE', 'mts': 'ALL'}
        return gen, ent, enc, info, 'twin-names'
    return gen, ent, enc, info, 'random-mc' if wmc else 'random'


def tu(includes) -> str:
    return ''.join(f'#include "{inc}"\n' for inc in includes) + 'int main() { return 0; }\n'


def eval_program(arg) -> dict:
    seed, stream, scratch, tier = arg
    common.import_dznpy()
    hostile = None
    if stream < 0:
        # canaries of the known findings: stream -1 .. -6
        which = (HOSTILE_FORMALS + ['port-name-case'])[-stream - 1]
        crng = random.Random(f'{PROP}:hostile:{seed}:{which}')
        got = None
        for _ in range(40):
            got = hostile_case(crng, which)
            if got:
                break
        if not got:
            return {'violations': [], 'counts': {}, 'digest': f'hostile-{which}', 'nontrivial': False}
        gen, ent, enc, info, hostile = got
        kind = 'hostile'
    else:
        gen, ent, enc, info, kind = make_case(seed, stream)
    rng = random.Random(f'{PROP}:tu:{seed}:{stream}')
    work = os.path.join(scratch, f'c06_{stream}')
    out = {'violations': [], 'counts': {f'kind_{kind}': 1}}
    cnt = out['counts']
    case = {'seed': seed, 'stream': stream, 'kind': kind, 'cfg': enc, 'component': info['fqn'],
            'doc': M.to_json(gen.model)}
    # which compiler and language level the user's project has is not ours to choose: g++ and
    # clang++-14, C++17 and C++20, rotated over the programs (both compilers in the thorough tier)
    compilers = ['plain', 'clang'] if tier == 'thorough' else [['plain', 'clang'][stream % 2]]
    cxxlab.EXTRA_FLAGS[:] = ['-std=c++20'] if (stream // 2) % 2 else []
    for flavor in compilers:
        cnt[f'compiled_with_{flavor}'] = 1
    cnt['compiled_as_' + ('c++20' if cxxlab.EXTRA_FLAGS else 'c++17')] = 1

    def viol(shape, stderr, **detail):
        err = cxxlab.first_error(stderr)
        detail.update(shape=shape, error=err, kind=kind, multiclient=bool(enc.get('multiclient')),
                      global_scope=not info['scope'], hostile=hostile or 'no')
        out['violations'].append({
            'mechanism': f'compile-error:{shape}:{cxxlab.normalise_error(err)}',
            'detail': detail, 'case': case,
            'files': {'compiler.txt': stderr[-6000:]}})

    prog = cxxlab.ShellProgram(gen, ent, enc, info, work)
    if not prog.generate():
        out['violations'].append({'mechanism': f'valid-build-failed:{prog.build_exc["type"]}',
                                  'detail': prog.build_exc, 'case': case})
        return finish(out, case, work)
    if hostile:
        cnt['hostile_identifier_cases'] = 1
        if not prog.compile('plain'):
            viol('link', prog.compile_err)
        else:
            cnt['hostile_identifier_cases_that_compile'] = 1
        return finish(out, case, work)
    base = shellbuild.basename(enc)
    headers = [n for n in prog.files if n.endswith('.hh')]
    shell_hh = shellbuild.shell_name(enc) + '.hh'
    # (f) quoted includes name returned files or the model header
    for name, text in prog.files.items():
        for inc in INCLUDE_RE.findall(text):
            cnt['quoted_includes'] = cnt.get('quoted_includes', 0) + 1
            if inc not in prog.files and inc != base + '.hh':
                out['violations'].append({'mechanism': 'include-names-unknown-file',
                                          'detail': {'file_kind': name.rsplit('_', 1)[-1],
                                                     'include': inc}, 'case': case})
    for flavor in compilers:
        # (a) alone, (b) twice
        for hdr in headers:
            for shape, incs in (('alone', [hdr]), ('twice', [hdr, hdr])):
                src = f'tu_{shape}_{hdr}.cc'
                cxxlab.write_files(work, {src: tu(incs)})
                rc, err = cxxlab.syntax_only(work, src, flavor)
                cnt[f'tu_{shape}'] = cnt.get(f'tu_{shape}', 0) + 1
                if rc == -9:
                    out['inconclusive'] = 'compiler watchdog'
                elif rc != 0:
                    viol(shape, err, header_kind=hdr.rsplit('_', 1)[-1] if hdr != shell_hh
                         else 'shell.hh', compiler=flavor)
        # (c) all headers, three random orders, each twice
        for k in range(3):
            order = list(headers)
            rng.shuffle(order)
            src = f'tu_orders_{k}.cc'
            cxxlab.write_files(work, {src: tu(order + order)})
            rc, err = cxxlab.syntax_only(work, src, flavor)
            cnt['tu_orders'] = cnt.get('tu_orders', 0) + 1
            if rc not in (0, -9):
                viol('orders', err, compiler=flavor)
    # (d) used from another translation unit: link and run
    if prog.compile(compilers[-1]):
        cnt['programs_linked'] = 1
        script = [f'construct {prog.locator_shape()}']
        if enc.get('multiclient'):
            script += ['register A', 'register B', 'bindall A', 'bindall B', 'clients']
        script += ['bindall -', 'final', 'addresses']
        res = prog.run('\n'.join(script) + '\n', compilers[-1])
        kinds_seen = {r.get('kind') for r in res['log']}
        if res['timeout']:
            out['inconclusive'] = 'harness watchdog'
        elif res['rc'] != 0 or 'final_ok' not in kinds_seen:
            out['violations'].append({
                'mechanism': 'separate-tu-use-failed',
                'detail': {'rc': res['rc'], 'stderr': res['stderr'][-400:],
                           'events': [r for r in res['log'] if r.get('kind') in
                                      ('construct_failed', 'final_threw', 'op_threw')][:3]},
                'case': case})
        else:
            cnt['programs_run'] = 1
    else:
        viol('link', prog.compile_err)
    # (e) another shell of the same prefix in one TU, and another prefix in one program
    other_suffix = enc.get('suffix', 'Shell') + 'Two'
    same = dict(enc, suffix=other_suffix)
    alt_prefix = ['QZAlt']
    if enc.get('prefix') and len('_'.join(enc['prefix'])) > 64:
        # two long prefixes that differ in their last identifier only
        alt_prefix = list(enc['prefix'][:-1]) + [enc['prefix'][-1] + 'Other']
        cnt['programs_with_two_long_prefixes_differing_at_the_end'] = 1
    alt = dict(enc, suffix=enc.get('suffix', 'Shell') + 'Alt', prefix=alt_prefix)
    fc = shellbuild.parse_doc(case['doc'])
    try:
        same_files = {n: c for n, c, _h in shellbuild.build_files(same, fc)}
        alt_files = {n: c for n, c, _h in shellbuild.build_files(alt, fc)}
    except Exception as exc:  # pylint: disable=broad-except
        out['violations'].append({'mechanism': 'valid-build-failed:variant',
                                  'detail': common.classify_exception(exc), 'case': case})
        return finish(out, case, work)
    for name, text in same_files.items():
        if name in prog.files and prog.files[name] != text:
            out['violations'].append({'mechanism': 'support-file-depends-on-suffix',
                                      'detail': {'file': name}, 'case': case})
    cxxlab.write_files(work, {n: c for n, c in same_files.items() if n not in prog.files})
    cxxlab.write_files(work, alt_files)
    src = 'tu_two_shells.cc'
    cxxlab.write_files(work, {src: tu([shell_hh, shellbuild.shell_name(same) + '.hh'])})
    rc, err = cxxlab.syntax_only(work, src, compilers[-1])
    cnt['tu_two_shells'] = 1
    if rc not in (0, -9):
        viol('two-shells-one-tu', err)
    src = 'tu_coexist.cc'
    all_headers = headers + [n for n in alt_files if n.endswith('.hh')]
    rng.shuffle(all_headers)
    cxxlab.write_files(work, {src: tu(all_headers)})
    exe = os.path.join(work, 'coexist')
    rc, err = cxxlab.compile_link(work, [src, shellbuild.shell_name(enc) + '.cc',
                                         shellbuild.shell_name(alt) + '.cc'], exe, compilers[-1])
    cnt['programs_coexist'] = 1
    if rc not in (0, -9):
        viol('coexist-prefixes', err)
    return finish(out, case, work)


def finish(out, case, work):
    cxxlab.EXTRA_FLAGS[:] = []
    shutil.rmtree(work, ignore_errors=True)
    out['digest'] = common.digest({'doc': case['doc'], 'cfg': case['cfg']})
    out['nontrivial'] = True
    out['sample'] = {'kind': case['kind'], 'component': case['component'], 'cfg': case['cfg']}
    for v in out['violations']:
        v['case'] = {k: val for k, val in case.items()}
    return out


def main(tier: str) -> int:
    if not cxxlab.tools_available():
        raise common.Inconclusive('g++ / clang++-14 not available')
    run = common.Run(PROP, tier, level='exploration')
    n = 14 if tier == 'quick' else 300
    scratch = run.scratch()
    run.require('programs_with_two_long_prefixes_differing_at_the_end', 'compiled_with_clang', 'compiled_with_plain', 'compiled_as_c++20', 'compiled_as_c++17',
                'tu_alone', 'tu_twice', 'tu_orders', 'programs_linked', 'programs_run',
                'tu_two_shells', 'programs_coexist', 'kind_global-component', 'kind_random-mc')
    jobs = [(run.seed, i, scratch, tier) for i in range(n)] + \
        [(run.seed, -k, scratch, tier) for k in range(1, len(HOSTILE_FORMALS) + 2)]
    for item, res in run.pmap(eval_program, jobs,
                              timeout=3600):
        if res.get('inconclusive'):
            run.mark_inconclusive(res['inconclusive'])
        common.absorb(run, {'seed': item[0], 'stream': item[1]}, res)
    return run.finish(
        rule='file sets of successful builds (special shapes: component in the global namespace, '
             'everything global, component without ports, only injected ports, empty interface; '
             'then random models, every third with a multi-client port; hostile copyright text; '
             'prefixes none/1/3 identifiers) x translation-unit shapes: each header alone, twice, '
             'all headers in 3 random orders twice, harness TU + shell source linked and run, two '
             'shells in one TU, two prefixes in one program; evaluations = file sets',
        assumptions=['mock Dezyne runtime (vlib/cxx/mockdzn) and mock model header stand in for '
                     'Dezyne 2.17: fidelity by construction from the API the emitted code uses',
                     'compilers: g++ 12 (quick) and clang++ 14 in addition (thorough), libstdc++'])


def replay(path: str) -> int:
    import json  # pylint: disable=import-outside-toplevel
    import tempfile  # pylint: disable=import-outside-toplevel
    with open(os.path.join(path, 'replay.json'), encoding='utf-8') as fh:
        body = json.load(fh)
    case = body['case']
    scratch = tempfile.mkdtemp(prefix='dznpy-verif-c06-')
    try:
        res = eval_program((case['seed'], case['stream'], scratch, 'quick'))
    finally:
        shutil.rmtree(scratch, ignore_errors=True)
    for v in res['violations']:
        print(v['mechanism'], v['detail'].get('error'))
    if res['violations']:
        print(f'VIOLATION property={PROP} replay={path}')
        return common.EXIT_VIOLATED
    return common.EXIT_HELD
