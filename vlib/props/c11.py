"""C11 - generated multi-client support is correct under all thread interleavings.

Three monitors on the C++ dznpy emitted for a fixed multi-client model (Arb.Hub):
 1. ThreadSanitizer, free-running: 2-3 client threads run claim/use/release cycles while an
    environment thread makes the component raise out-events; seeded sleeps/yields are injected
    where user code legitimately runs (ILog callbacks, dispatcher entry).  Race reports whose
    stacks touch the emitted files refute; so do deliveries judged wrong by the in-process
    oracle (the protocol-following mock component knows the claim holder).
 2. Deterministic cooperative scheduler (vsched): all threads run one at a time and switch
    only at yield points (before posting to the dispatcher, at the selector's Select/Deselect
    log callbacks, before the dispatcher executes a task, when blocking on a forwarded call).
    Schedules are enumerated depth-first under a preemption bound by re-running the process;
    "no thread enabled" is a deadlock verdict without timers.
 3. The mutex-wrapped helper alone under TSan: mutual exclusion, release on reset() and at
    scope exit.
"""
import json
import os
import random
import re
import shutil
import subprocess

from .. import common
from .. import cxxgen
from .. import cxxlab
from .. import model as M
from .. import shellbuild

PROP = 'C11'
CXX_DIR = os.path.join(os.path.dirname(os.path.dirname(os.path.abspath(__file__))), 'cxx')


class _Gen:
    """Minimal stand-in for ModelGen so that cxxgen.model_header can render the fixed model."""

    def __init__(self):
        self.enum = M.Enum(['Result'], ['Granted', 'Denied'])
        who = lambda: [M.Formal('who', M.Ref(['Id'], 'Arb.Id'), 'in')]  # noqa: E731
        self.itf = M.Interface(['IArb'], [self.enum], [
            M.Event('Acquire', 'in', M.Ref(['Result'], 'Arb.IArb.Result'), who()),
            M.Event('Free', 'in', M.Ref(['void']), who()),
            M.Event('Use', 'in', M.Ref(['void']), who()),
            M.Event('Done', 'out', M.Ref(['void']), [M.Formal('tag', M.Ref(['Id'], 'Arb.Id'), 'in')])])
        self.ext = M.Extern(['Id'], '::vx::T0')
        # a second, plain provides port declared after the multi-client one (its interface has
        # no out-events): the multi-client port is not the last rerouted provides port
        self.ctl = M.Interface(['ICtl'], [], [M.Event('Ping', 'in', M.Ref(['void']), [])])
        self.comp = M.Component(['Hub'], [M.Port('api', M.Ref(['IArb'], 'Arb.IArb'), 'provides'),
                                          M.Port('ctl', M.Ref(['ICtl'], 'Arb.ICtl'), 'provides')])
        self.model = M.Model([M.Namespace(['Arb'], [self.ext, self.itf, self.ctl, self.comp])])
        self.enums = [(['Arb', 'IArb', 'Result'], self.enum)]
        self.interfaces = [(['Arb', 'IArb'], self.itf, None), (['Arb', 'ICtl'], self.ctl, None)]
        self.components = [(['Arb', 'Hub'], self.comp, None)]

    def decls(self):
        return M.declared_names(self.model)

    def interface_by_fqn(self, dotted):
        return {'Arb.IArb': self.itf, 'Arb.ICtl': self.ctl}[dotted]


ENC = {'encapsulee': 'Arb.Hub', 'filename': 'Arb.dzn', 'suffix': 'Shell',
       'provides': {'sts': 'NONE', 'mts': 'ALL'}, 'requires': {'sts': 'NONE', 'mts': 'ALL'},
       'multiclient': {'port': 'api', 'claim': 'Acquire', 'reply': ['Granted'], 'release': 'Free'},
       'origin': 'import', 'copyright': 'c11', 'creator': None, 'prefix': None}

EMITTED_RE = re.compile(r'(ArbShell\.(cc|hh)|Dzn_\w+\.hh)')


def prepare(work: str):
    """dznpy builds the shell; returns {'files'} or {'exc'}."""
    gen = _Gen()
    res = shellbuild.outcome(ENC, M.to_json(gen.model))
    if 'files' not in res:
        return res
    sources = {n: c for n, c, _h in res['files']}
    sources['Arb.hh'] = cxxgen.model_header(gen, 'Arb')
    cxxlab.write_files(work, sources)
    shutil.copy(os.path.join(CXX_DIR, 'harness_mt.cc'), os.path.join(work, 'harness_mt.cc'))
    shutil.copy(os.path.join(CXX_DIR, 'mw_test.cc'), os.path.join(work, 'mw_test.cc'))
    return res


def tsan_blocks(stderr: str):
    """Split TSan output into report blocks: [(headline, touches_emitted, stack signature)]."""
    blocks = []
    cur = None
    for line in stderr.splitlines():
        if line.startswith('WARNING: ThreadSanitizer'):
            cur = {'head': line.split('ThreadSanitizer:', 1)[1].split('(pid')[0].strip(),
                   'lines': []}
            blocks.append(cur)
        elif cur is not None:
            cur['lines'].append(line)
            if line.startswith('SUMMARY:'):
                cur = None
    out = []
    for blk in blocks:
        text = '\n'.join(blk['lines'])
        frames = re.findall(r'#\d+ (.+?) (?:/\S*/)?([\w.]+):\d+', text)
        emitted = sorted({f[1] for f in frames if EMITTED_RE.search(f[1])})
        sig = '|'.join(sorted({re.sub(r'<.*', '', f[0])[:40] for f in frames
                               if EMITTED_RE.search(f[1])}))[:200]
        out.append((blk['head'], emitted, sig, text[:3000]))
    return out


def run_tsan(arg):
    exe, work, clients, cycles, uses, env_events, seed, idx = arg
    logp = os.path.join(work, f'tsan_{idx}.log')
    env = dict(os.environ, TSAN_OPTIONS='halt_on_error=0:report_signal_unsafe=0:second_deadlock_stack=1')
    cmd = [exe, str(clients), str(cycles), str(uses), str(env_events), logp, str(seed)]
    for attempt, limit in enumerate((40, 120)):
        try:
            proc = subprocess.run(cmd, capture_output=True, text=True, timeout=limit, env=env,
                                  errors='replace')
            break
        except subprocess.TimeoutExpired:
            if attempt == 1:
                return {'timeout': True, 'seed': seed}
    log = []
    if os.path.exists(logp):
        with open(logp, encoding='utf-8', errors='replace') as fh:
            log = [json.loads(l) for l in fh if l.strip()]
        os.unlink(logp)
    return {'rc': proc.returncode, 'blocks': tsan_blocks(proc.stderr), 'log': log, 'seed': seed,
            'stderr_tail': proc.stderr[-600:]}


def run_sched(arg):
    exe, work, clients, cycles, uses, env_events, prefix, bound, rng, idx = arg
    base = os.path.join(work, f'sched_{os.getpid()}_{idx}')
    with open(base + '.pre', 'w', encoding='utf-8') as fh:
        fh.write(' '.join(str(c) for c in prefix))
    env = dict(os.environ, VSCHED_TRACE=base + '.trace')
    cmd = [exe, str(clients), str(cycles), str(uses), str(env_events), base + '.log',
           base + '.pre', str(bound), str(rng)]
    out = {'prefix': prefix}
    try:
        proc = subprocess.run(cmd, capture_output=True, text=True, timeout=20, env=env,
                              errors='replace')
        out['rc'] = proc.returncode
        out['stderr'] = proc.stderr[-300:]
    except subprocess.TimeoutExpired:
        out['timeout'] = True
    try:
        with open(base + '.trace', encoding='utf-8') as fh:
            trace = json.load(fh)
        out['verdict'] = trace['verdict']
        out['decisions'] = trace['decisions']
    except (OSError, ValueError):
        out['verdict'] = 'no-trace'
        out['decisions'] = []
    out['log'] = []
    try:
        with open(base + '.log', encoding='utf-8', errors='replace') as fh:
            out['log'] = [json.loads(l) for l in fh if l.strip()]
    except (OSError, ValueError):
        pass
    for ext in ('.pre', '.trace', '.log'):
        if os.path.exists(base + ext):
            os.unlink(base + ext)
    return out


def judge_log(log):
    viols = [r['d'] for r in log if r['kind'] == 'mt_violation']
    summary = next((r['d'] for r in log if r['kind'] == 'mt_summary'), None)
    return viols, summary


def explore(run, exe, work, scenario, bound, max_runs, label):
    """Depth-first enumeration of schedules by re-running the process with choice prefixes."""
    clients, cycles, uses, env_events = scenario
    stack = [[]]
    runs = 0
    final_states = set()
    schedules = set()
    exhausted = True
    sample_trace = None
    idx = 0
    hung = 0
    while stack:
        if runs >= max_runs:
            exhausted = False
            break
        if hung >= 1 and (hung >= 3 or runs <= 4):
            exhausted = False     # every further schedule would sit out the watchdog as well
            break
        batch = [stack.pop() for _ in range(min(len(stack), common.NCPU * 2, max_runs - runs))]
        jobs = []
        for prefix in batch:
            idx += 1
            jobs.append((exe, work, clients, cycles, uses, env_events, prefix, bound, 0, idx))
        for job, res in run.pmap(run_sched, jobs):
            runs += 1
            prefix = job[6]
            decisions = [d.split(':', 2) for d in res['decisions']]
            choices = [int(d[1]) for d in decisions]
            schedules.add(tuple(choices))
            case = {'scenario': list(scenario), 'bound': bound, 'schedule': choices,
                    'decisions': res['decisions'][:400]}
            if res.get('timeout') or res['verdict'] == 'no-trace':
                kind = 'hung' if res.get('timeout') else 'crashed'
                run.violation(f'scheduler-run-{kind}',
                              {'label': label, 'stderr': res.get('stderr'), 'rc': res.get('rc')}, case)
                hung += 1
                continue
            if res['verdict'] == 'deadlock':
                blocked = [d[2] for d in decisions[-6:]]
                run.violation('deadlock', {'label': label, 'last_decisions': blocked}, case)
            elif res['verdict'] != 'completed':
                run.violation(f'scheduler-verdict:{res["verdict"]}', {'label': label}, case)
            viols, summary = judge_log(res['log'])
            for v in viols:
                run.violation(f'interleaving:{v["what"]}', dict(v, label=label), case)
            if summary:
                final_states.add(json.dumps(summary, sort_keys=True))
                run.count('sched_out_events_judged', summary['judged'])
                run.count('sched_completed_cycles', summary['completed_cycles'])
                if summary['gave_up']:
                    run.violation('client-starved', dict(summary, label=label), case)
            if sample_trace is None and len(res['decisions']) > 10:
                sample_trace = res['decisions'][:60]
            # children: alternatives at every decision beyond the prefix
            for i in range(len(prefix), len(decisions)):
                n = int(decisions[i][0])
                for alt in range(1, n):
                    stack.append(choices[:i] + [alt])
    run.count(f'schedules_{label}', runs)
    run.count('schedules_total', runs)
    run.extra.setdefault('scheduler', {})[label] = {
        'scenario': {'clients': clients, 'cycles': cycles, 'uses': uses, 'env_events': env_events},
        'preemption_bound': bound, 'schedules_run': runs, 'distinct_schedules': len(schedules),
        'distinct_final_states': len(final_states), 'exhausted_under_bound': exhausted}
    if sample_trace:
        run.samples.append({'label': label, 'first_decisions (n:choice:thread@where)': sample_trace})
    run.extra['scheduler'][label]['hung_runs'] = hung
    return runs if hung < 1 else -1


def random_schedules(run, exe, work, scenario, count, label):
    clients, cycles, uses, env_events = scenario
    rng = run.rng(label)
    jobs = [(exe, work, clients, cycles, uses, env_events, [], 1 << 30,
             rng.randrange(1, 2 ** 62), 10 ** 6 + i) for i in range(count)]
    seen = set()
    results = []
    for start in range(0, len(jobs), 256):
        batch = list(run.pmap(run_sched, jobs[start:start + 256]))
        results.extend(batch)
        if sum(1 for _j, r in batch if r.get('timeout')) >= 3:
            break     # hanging binary: do not sit out the watchdog for every schedule
    count = len(results)
    for job, res in results:
        decisions = [d.split(':', 2) for d in res['decisions']]
        choices = [int(d[1]) for d in decisions]
        seen.add(tuple(choices))
        case = {'scenario': list(scenario), 'schedule': choices, 'rng': job[8]}
        if res.get('timeout') or res['verdict'] == 'no-trace':
            run.violation('scheduler-run-hung' if res.get('timeout') else 'scheduler-run-crashed',
                          {'label': label, 'stderr': res.get('stderr')}, case)
            continue
        if res['verdict'] == 'deadlock':
            run.violation('deadlock', {'label': label}, case)
        viols, summary = judge_log(res['log'])
        for v in viols:
            run.violation(f'interleaving:{v["what"]}', dict(v, label=label), case)
        if summary:
            run.count('sched_out_events_judged', summary['judged'])
            if summary['gave_up']:
                run.violation('client-starved', dict(summary, label=label), case)
    run.count(f'schedules_{label}', count)
    run.count('schedules_total', count)
    run.extra.setdefault('scheduler', {})[label] = {'random_schedules': count,
                                                    'distinct_schedules': len(seen)}


def main(tier: str) -> int:
    if not cxxlab.tools_available():
        raise common.Inconclusive('g++ / clang++-14 not available')
    common.import_dznpy()
    run = common.Run(PROP, tier)
    work = run.scratch()
    res = prepare(work)
    case0 = {'model': 'Arb.Hub (fixed)', 'cfg': ENC}
    if 'files' not in res:
        run.violation(f'valid-build-failed:{res["exc"]["type"]}', res['exc'], case0)
        return run.finish('fixed model')
    builds = {
        'tsan': (['harness_mt.cc', 'ArbShell.cc'], 'tsan', []),
        'sched': (['harness_mt.cc', 'ArbShell.cc'], 'plain', ['-DVSCHED', '-include', 'vmutex.hh']),
        'mw': (['mw_test.cc'], 'tsan', ['-DMW_HEADER="Dzn_MutexWrapped.hh"', '-DMW_NS=::Dzn']),
    }
    exes = {}
    for name, (srcs, flavor, extra) in builds.items():
        exe = os.path.join(work, 'exe_' + name)
        rc, err = cxxlab.compile_link(work, srcs, exe, flavor, extra)
        if rc != 0:
            msg = cxxlab.first_error(err)
            run.violation(f'shell-does-not-compile:{cxxlab.normalise_error(msg)}',
                          {'build': name, 'error': msg}, case0, {'compiler.txt': err[-6000:]})
        else:
            exes[name] = exe
    if len(exes) < 3:
        return run.finish('fixed model', min_nontrivial=0)

    # ---- monitor 3: MutexWrapped alone --------------------------------------------------------
    lock_leak = False
    for rep in range(3 if tier == 'quick' else 20):
        try:
            proc = subprocess.run([exes['mw'], '8', '20000' if tier == 'quick' else '100000'],
                                  capture_output=True, text=True, timeout=120,
                                  env=dict(os.environ, TSAN_OPTIONS='halt_on_error=0'))
        except subprocess.TimeoutExpired:
            run.violation('mutexwrapped:lock-not-released-or-deadlock', {'rep': rep},
                          {'kind': 'mw', 'rep': rep})
            lock_leak = True
            break
        run.count('mutexwrapped_runs')
        blocks = tsan_blocks(proc.stderr)
        case = {'kind': 'mw', 'rep': rep}
        for head, _emitted, sig, text in blocks:
            run.violation(f'mutexwrapped:tsan:{head}', {'stacks': sig}, case, {'tsan_report.txt': text})
        try:
            verdict = json.loads(proc.stdout.strip().splitlines()[-1])
            run.count('mutexwrapped_increments', verdict['expected'])
            for key, bad in (('overlap', verdict['overlap'] != 0),
                             ('lost-update', verdict['total'] != verdict['expected']),
                             ('reset-does-not-release', not verdict['reset_releases']),
                             ('scope-exit-does-not-release', not verdict['scope_releases'])):
                if bad:
                    run.violation(f'mutexwrapped:{key}', verdict, case)
        except (ValueError, IndexError):
            run.violation('mutexwrapped:test-crashed', {'rc': proc.returncode,
                                                        'stderr': proc.stderr[-400:]}, case)
    if lock_leak:
        # the helper never releases its lock: every other monitor would only sit out its watchdog
        run.case('mw-only-1', True, {'kind': 'mw'})
        run.case('mw-only-2', True)
        return run.finish('monitor 3 (MutexWrapped under TSan) found the lock is never released; '
                          'monitors 1 and 2 were skipped', min_nontrivial=0)
    # ---- monitor 1: TSan, free running ------------------------------------------------------
    reps, seeds = (6, 3) if tier == 'quick' else (50, 10)
    jobs = []
    for s in range(seeds):
        for r in range(reps):
            clients = 2 + (r % 2)
            jobs.append((exes['tsan'], work, clients, 12 if tier == 'quick' else 40, 2,
                         20 if tier == 'quick' else 80, 1 + run.seed * 1000 + s * 100 + r,
                         len(jobs)))
    dedup = {}
    results = []
    width = max(2, common.NCPU // 4)
    for start in range(0, len(jobs), width):
        batch = list(run.pmap(run_tsan, jobs[start:start + width], workers=width))
        results.extend(batch)
        if any(res.get('timeout') for _job, res in batch):
            break     # a run that sat out the watchdog twice: the rest would do the same
    for job, res in results:
        case = {'kind': 'tsan', 'clients': job[2], 'cycles': job[3], 'env_events': job[5],
                'sleep_seed': job[6]}
        if res.get('timeout'):
            run.violation('deadlock-or-livelock:watchdog-fired-twice', {'seed': res['seed']}, case)
            continue
        run.count('tsan_runs')
        for head, emitted, sig, text in res['blocks']:
            run.count('tsan_report_blocks')
            if emitted:
                key = (head, sig)
                if key not in dedup:
                    dedup[key] = True
                    run.violation(f'tsan:{head}', {'emitted_files': emitted, 'stacks': sig}, case,
                                  {'tsan_report.txt': text}, klass=f'tsan:{head}:{sig[:60]}')
            else:
                run.count('tsan_reports_outside_emitted_code')
        viols, summary = judge_log(res['log'])
        for v in viols:
            run.violation(f'interleaving:{v["what"]}', dict(v, monitor='tsan-free-running'), case)
        if summary is None:
            run.violation('harness-run-failed', {'rc': res['rc'], 'stderr': res['stderr_tail']}, case)
        else:
            run.count('tsan_out_events_judged', summary['judged'])
            run.count('tsan_completed_cycles', summary['completed_cycles'])
            run.count('tsan_denied_claims', summary['denied'])
            if summary['gave_up']:
                run.violation('client-starved', summary, case)
        run.case(common.digest(case), True, case if len(run.samples) < 1 else None)

    # ---- monitor 2: deterministic scheduler -------------------------------------------------
    if tier == 'quick':
        # iterative context bounding: every schedule with one preemption first (small spaces,
        # enumerated completely), then two preemptions within a run budget
        plan = [('explore', (2, 1, 1, 1), 1, 1500, '2clients_1cycle_pb1'),
                ('explore', (3, 1, 1, 1), 1, 1500, '3clients_1cycle_pb1'),
                ('explore', (2, 1, 1, 1), 2, 1500, '2clients_1cycle_pb2'),
                # what an interleaving leaves behind shows in the cycles that follow it
                ('explore', (2, 3, 1, 1), 1, 1500, '2clients_3cycles_pb1'),
                ('random', (3, 1, 1, 2), None, 300, 'random_3clients')]
    else:
        plan = [('explore', (2, 1, 1, 1), 1, 20000, '2clients_1cycle_pb1'),
                ('explore', (3, 1, 1, 1), 1, 20000, '3clients_1cycle_pb1'),
                ('explore', (2, 2, 2, 2), 1, 40000, '2clients_2cycles_pb1'),
                ('explore', (3, 2, 1, 2), 1, 40000, '3clients_2cycles_pb1'),
                ('explore', (2, 1, 1, 1), 2, 150000, '2clients_1cycle_pb2'),
                ('explore', (3, 1, 1, 1), 2, 100000, '3clients_1cycle_pb2'),
                ('explore', (2, 1, 1, 1), 3, 100000, '2clients_1cycle_pb3'),
                ('random', (3, 2, 2, 4), None, 100000, 'random_3clients')]
    for kind, scenario, bound, budget, label in plan:
        if kind == 'explore':
            if explore(run, exes['sched'], work, scenario, bound=bound, max_runs=budget,
                       label=label) < 0:
                break     # the binary hangs under the scheduler: reported, nothing more to learn
        else:
            random_schedules(run, exes['sched'], work, scenario, budget, label)
    for _ in range(min(3, run.observed.get('schedules_total', 0))):
        run.case(common.digest([_, 'sched']), True)

    run.require('tsan_runs', 'tsan_out_events_judged', 'tsan_completed_cycles', 'schedules_total',
                'sched_out_events_judged', 'mutexwrapped_runs', 'mutexwrapped_increments')
    return run.finish(
        rule='fixed multi-client model Arb.Hub (claim Acquire / release Free / Use / out Done, '
             'identities passed as arguments) built by dznpy; monitor 1: TSan runs (2-3 client '
             'threads x cycles, environment out-events, seeded sleep injection); monitor 2: '
             'vsched schedules enumerated depth-first under a preemption bound + random schedules '
             '(see coverage.scheduler); monitor 3: MutexWrapped under TSan; evaluations = TSan '
             'runs + schedule batches; distinct = run parameters',
        assumptions=['yield points are where user code can observe (ILog callbacks, dispatcher '
                     'entry/exec, blocking on a forwarded call); interleavings inside libstdc++\'s '
                     'mutex are left to TSan', 'mock runtime, vsched and the harness are the '
                     'trusted base; TSan reports that do not touch emitted files are counted, not '
                     'judged'])


def replay(path: str) -> int:
    """Rebuild the scenario binaries from the current tree and re-run the stored schedule (or the
    stored TSan parameters, five times)."""
    import tempfile  # pylint: disable=import-outside-toplevel
    with open(os.path.join(path, 'replay.json'), encoding='utf-8') as fh:
        body = json.load(fh)
    case = body['case']
    common.import_dznpy()
    work = tempfile.mkdtemp(prefix='dznpy-verif-C11-replay-')
    try:
        res = prepare(work)
        if 'files' not in res:
            print('build failed:', res['exc'])
            print(f'VIOLATION property={PROP} replay={path}')
            return common.EXIT_VIOLATED
        bad = []
        if 'schedule' in case:
            exe = os.path.join(work, 'exe_sched')
            rc, err = cxxlab.compile_link(work, ['harness_mt.cc', 'ArbShell.cc'], exe, 'plain',
                                          ['-DVSCHED', '-include', 'vmutex.hh'])
            if rc != 0:
                print(cxxlab.first_error(err))
                bad.append('does not compile')
            else:
                clients, cycles, uses, env_events = case['scenario']
                out = run_sched((exe, work, clients, cycles, uses, env_events, case['schedule'],
                                 case.get('bound', 1 << 30), 0, 1))
                viols, summary = judge_log(out['log'])
                print('verdict:', out['verdict'], 'summary:', summary)
                for d in out['decisions'][:200]:
                    print('  ', d)
                bad += [v['what'] for v in viols]
                if out['verdict'] != 'completed':
                    bad.append(out['verdict'])
        elif case.get('kind') == 'tsan':
            exe = os.path.join(work, 'exe_tsan')
            rc, err = cxxlab.compile_link(work, ['harness_mt.cc', 'ArbShell.cc'], exe, 'tsan')
            if rc != 0:
                bad.append('does not compile')
            for rep in range(5 if rc == 0 else 0):
                out = run_tsan((exe, work, case['clients'], case['cycles'], 2, case['env_events'],
                                case['sleep_seed'], rep))
                if out.get('timeout'):
                    bad.append('watchdog')
                    break
                viols, _summary = judge_log(out['log'])
                bad += [v['what'] for v in viols] + [b[0] for b in out['blocks'] if b[1]]
        else:
            print(json.dumps(case)[:1000])
        if bad:
            print('reproduced:', sorted(set(bad)))
            print(f'VIOLATION property={PROP} replay={path}')
            return common.EXIT_VIOLATED
        print('not reproduced on this tree')
        return common.EXIT_HELD
    finally:
        shutil.rmtree(work, ignore_errors=True)
