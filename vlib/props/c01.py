"""C01 - the shell forwards every port event to its counterpart exactly once, intact.

Monitor: offline check of the event log of the compiled shell.  Every event of every exposed
port is stimulated in all four directions with fresh unique argument ids; instrumented handlers
on the wrapped (mock) component and per-(port,event) recorders on the user side log arrivals;
the checker demands a bijection stimuli <-> arrivals with equal (port, event), equal id vectors
and equal reply / out values on both sides (vlib.tracecheck.check_routing).
"""
from .. import common
from .. import cxxlab
from .. import progrun
from .. import scripts
from .. import tracecheck

PROP = 'C01'


def eval_program(arg) -> dict:
    seed, stream, scratch, tier = arg
    common.import_dznpy()
    want_mc = stream % 3 == 1
    # one program per run wraps a component whose two rerouted ports use interfaces from
    # unrelated namespaces, each referring to its own extern of the same simple name
    twins = stream % 6 == 2
    if twins and stream % 12 == 8:
        twins = 'same-names'     # ... and the two interfaces and their events share their names too
    def accept(info):
        # the program of big size reroutes out-events with several parameters
        return stream % 12 != 11 or any(info['ports'][p]['n_out'] for p in info['requires'])
    prog, case, _rng = progrun.make_program(PROP, seed, stream, scratch, want_mc, accept=accept,
                                            mc_position=['first', 'middle', 'last'][(stream // 3) % 3],
                                            mc_shape=stream // 3, twins=twins,
                                            big=stream % 12 == 11)
    out = {'violations': [], 'counts': {}}
    if prog.enc.get('big'):
        # ten and more ports and events, long names: everything rerouted
        prog.enc['provides'] = {'sts': 'NONE', 'mts': 'ALL'}
        prog.enc['requires'] = {'sts': 'NONE', 'mts': 'ALL'}
        case['cfg'] = prog.enc
    if twins:
        prog.enc['provides'] = {'sts': 'NONE', 'mts': 'ALL'}
        prog.enc['requires'] = {'sts': 'NONE', 'mts': 'ALL'}
        case['cfg'] = prog.enc
        out['counts']['programs_with_same_named_externs_in_unrelated_namespaces'] = 1
    flavors = ['plain'] + (['asan'] if stream % 5 == 0 else [])
    if not progrun.build_or_report(prog, case, out, flavors):
        return progrun.finish_program(prog, out, case)
    script = scripts.routing_script(prog, rounds=3)
    meta = progrun.meta_of(prog)
    n_events = len(prog.events())
    for flavor in flavors:
        log = progrun.run_and_collect(prog, script, flavor, f'routing_{flavor}', out, case)
        if log is None:
            continue
        viols, counts = tracecheck.check_routing(log, meta)
        for key, val in counts.items():
            if key == 'distinct_routes':
                out['counts'][key] = max(out['counts'].get(key, 0), val)
            else:
                out['counts'][key] = out['counts'].get(key, 0) + val
        for mech, detail in viols:
            out['violations'].append({'mechanism': mech, 'detail': detail, 'case': case,
                                      'files': {'script.txt': script}})
    nested = scripts.nested_script(prog)
    if 'nest ' in nested:
        log = progrun.run_and_collect(prog, nested, 'plain', 'nested_plain', out, case)
        if log is not None:
            viols, counts = tracecheck.check_nested(log, meta, nested)
            for key, val in counts.items():
                out['counts'][key] = out['counts'].get(key, 0) + val
            for mech, detail in viols:
                out['violations'].append({'mechanism': mech, 'detail': detail, 'case': case,
                                          'files': {'script.txt': nested}})
    out['counts']['programs'] = 1
    out['counts']['programs_multiclient'] = 1 if case['cfg'].get('multiclient') else 0
    shared = len({v['itf'] for v in case['ports'].values()}) < len(case['ports'])
    out['counts']['programs_with_ports_sharing_an_interface'] = 1 if shared else 0
    return progrun.finish_program(prog, out, case, nontrivial=n_events >= 2)


def main(tier: str) -> int:
    if not cxxlab.tools_available():
        raise common.Inconclusive('g++ / clang++-14 not available')
    run = common.Run(PROP, tier)
    n = 12 if tier == 'quick' else 500
    run.require('stimuli', 'arrivals', 'args_compared', 'returns_compared', 'programs', 'arrivals_at_a_handler_bound_again',
                'programs_multiclient', 'programs_with_ports_sharing_an_interface',
                'programs_with_same_named_externs_in_unrelated_namespaces',
                'nested_out_events_raised', 'nested_out_events_to_the_claim_holder',
                'programs_of_big_size')
    scratch = run.scratch()
    progrun.drive(run, eval_program, [(run.seed, i, scratch, tier) for i in range(n)])
    return run.finish(
        rule='random well-formed models (0-3 ports per side, ports sharing an interface, 0-5 '
             'events with 0-4 in/out/inout formals, all reply kinds, namespace nesting 0-3, '
             'components and systems) x valid configurations (presets, explicit sets, both '
             'origins, every third with a multi-client port whose claim is held by client A): '
             'every event of every exposed port stimulated 3 times in its direction; evaluations '
             '= compiled programs; non-trivial = >=2 (port, event) pairs',
        assumptions=['mock Dezyne runtime and mock model header (vlib/cxx/mockdzn, vlib/cxxgen) '
                     'are the trusted base', 'events are driven one at a time (pump quiesced '
                     'between stimuli); formal names stay outside the pool of known finding D11'])


def replay(path: str) -> int:
    return replay_program(PROP, eval_program, path)


def replay_program(prop, worker, path):
    import json  # pylint: disable=import-outside-toplevel
    import os  # pylint: disable=import-outside-toplevel
    import shutil  # pylint: disable=import-outside-toplevel
    import tempfile  # pylint: disable=import-outside-toplevel
    with open(os.path.join(path, 'replay.json'), encoding='utf-8') as fh:
        body = json.load(fh)
    case = body['case']
    scratch = tempfile.mkdtemp(prefix='dznpy-verif-replay-')
    try:
        job = (case['seed'], case['stream'], scratch, body.get('tier', 'quick'))
        if case.get('surroundings'):
            from .. import surroundings  # pylint: disable=import-outside-toplevel
            print(f'(evaluated in a child interpreter, surroundings: {case["surroundings"]})')
            res = surroundings.run_chunk(case['surroundings'], worker, [job])[0]
        else:
            res = worker(job)
    finally:
        shutil.rmtree(scratch, ignore_errors=True)
    for v in res['violations']:
        print(v['mechanism'], json.dumps(common.jsonable(v['detail']))[:300])
    if res['violations']:
        print(f'VIOLATION property={prop} replay={path}')
        return common.EXIT_VIOLATED
    return common.EXIT_HELD
