"""C19 - user text rendered as a comment can never become code.

Monitors: (1) line predicate on str(Comment(x)) against an independent line splitter, plus
object-unchanged / idempotence observations around rendering; (2) whole builds that differ
only in copyright / creator_info, compared after deleting '//' lines and - with the compiler's
own lexer (g++ -fpreprocessed -E -P strips comments and nothing else) - as token residue.
"""
import os
import random
import subprocess

from .. import cfggen
from .. import common
from .. import model as M
from .. import shellbuild
from .. import textref as T

PROP = 'C19'

HOSTILE = ['*/ int x; /*', '#include <evil>', 'ends with backslash \\', 'two\\\nlines', '??/',
           'a\rint injected;', 'b\x0bint injected;', 'c\x0cint injected;', 'd\x85int injected;',
           'e\u2028int injected;', 'f\u2029int injected;', 'g\x1cint injected;',
           'h\x1dint i;', 'k\x1eint i;', '\n\nblank lines\n\n', '   leading', '\ttab', 'trailing   ',
           '#define X 1', '"unterminated', "'", '//', '/*', 'é ü 漢字', '}', '};', '']


LONG_LINES = ['Copyright (c) ' + 'Permission is hereby granted to any person obtaining a copy. ' * 6,
              'x' * 253, 'path/' * 60, ('word ' * 70).strip(), 'y' * 1000,
              'int injected; ' * 30]


def rand_comment_content(rng: random.Random):
    r = rng.random()
    if rng.random() < 0.05:
        # a notice pasted as one line of several hundred characters
        return rng.choice([rng.choice(LONG_LINES), [rng.choice(LONG_LINES), 'short'],
                           ['a', rng.choice(LONG_LINES)]])
    if rng.random() < 0.15:
        # the text arrives as a text block of its own that carries a header (a tool re-using
        # its "Release notes:" block), handed over directly or among other pieces
        headed = {'tb': [rng.choice(HOSTILE) for _ in range(rng.randint(1, 3))],
                  'header': rng.choice(['Release notes:', '#define OWNER "x"', 'int injected;',
                                        ['using namespace std;', 'two']])}
        return headed if rng.random() < 0.6 else [rng.choice(HOSTILE), headed]
    if rng.random() < 0.12:
        # a rule or a paragraph defined once and used twice
        rule = [rng.choice(HOSTILE) or '====']
        para = {'dict': [['a', [rng.choice(HOSTILE), 'x']]]}
        return rng.choice([[rule, rng.choice(HOSTILE), rule], [para, '', para],
                           [[rule, 'mid'], [rule]]])
    if r < 0.35:
        return rng.choice(HOSTILE)
    if r < 0.6:
        return ''.join(rng.choice(HOSTILE + T.BOUNDARIES + [' ', 'x']) for _ in range(rng.randint(1, 5)))
    if r < 0.8:
        return [rng.choice(HOSTILE) for _ in range(rng.randint(0, 4))]
    return T.rand_content(rng, 3)


def judge_rendering(text: str, lines):
    """Compare the rendered comment with the physical lines it was made from."""
    out = []
    if not lines:
        if text != '':
            out.append(('empty-comment-renders-text', {'got': text[:80]}))
        return out
    if not text.endswith('\n'):
        out.append(('comment-does-not-end-with-newline', {'got': text[-20:]}))
    rendered = text.split('\n')[:-1] if text.endswith('\n') else text.split('\n')
    if len(rendered) != len(lines):
        out.append(('comment-line-count-differs', {'lines': lines[:10], 'rendered': rendered[:10]}))
        # still look at every rendered line
    for res in rendered:
        if not res.startswith('//'):
            out.append(('comment-line-without-slashes', {'line': res[:80]}))
        if T.has_boundary(res):
            out.append(('comment-line-holds-line-break', {'line': repr(res)[:80]}))
    if len(rendered) == len(lines):
        for src, res in zip(lines, rendered):
            rest = res[2:]
            if T.is_blank(src):
                if rest.strip():
                    out.append(('comment-text-altered', {'src': src, 'rendered': res}))
            elif rest.rstrip() not in ((' ' + src).rstrip(), src.rstrip()):
                out.append(('comment-text-altered', {'src': src, 'rendered': res}))
    return out


def scoping_ns(ids):
    from dznpy.scoping import NamespaceIds  # pylint: disable=import-outside-toplevel
    return NamespaceIds(list(ids))


def _inner(block, head: int, tail: int):
    """The lines a scope block shows between its opening and closing lines, as a TextBlock."""
    from dznpy.text_gen import TextBlock  # pylint: disable=import-outside-toplevel
    lines = str(block).split('\n')[:-1]
    return TextBlock(lines[head:len(lines) - tail])


def eval_case(case: dict) -> dict:
    """case: {'content': enc, 'extend': enc or None}"""
    common.import_dznpy()
    from dznpy import cpp_gen, text_gen  # pylint: disable=import-outside-toplevel
    out = {'violations': [], 'counts': {}}
    cnt = out['counts']

    def viol(mech, **detail):
        out['violations'].append({'mechanism': mech, 'detail': detail, 'case': case})

    try:
        enc = case['content']
        lines = T.ref_lines(enc)
        how = case.get('how', 'ctor')
        if how == 'ctor':
            com = cpp_gen.Comment(T.decode(enc, text_gen.TextBlock))
        else:
            # an empty comment filled afterwards, through append() or the += operator
            com = cpp_gen.Comment()
            if how == 'iadd':
                com += T.decode(enc, text_gen.TextBlock)
            else:
                com.append(T.decode(enc, text_gen.TextBlock))
        cnt[f'filled_via_{how}'] = 1
        if isinstance(enc, dict) and 'tb' in enc and enc.get('header'):
            # whether a comment made directly from a headed block takes the header along is
            # not stated (the library leaves it out); either way all of it is comment
            cnt['content_is_a_headed_text_block'] = 1
            if com.lines == T.ref_lines(enc['tb']):
                lines = T.ref_lines(enc['tb'])
        elif 'header' in repr(enc):
            cnt['content_holds_a_headed_text_block'] = 1
        if com.lines != lines:
            viol('comment-lines-differ-from-reference', expected=lines[:10], got=com.lines[:10])
        before = list(com.lines)
        first = str(com)
        cnt['comments_rendered'] = 1
        if any(len(ln) > 252 for ln in lines):
            cnt['comments_with_lines_beyond_252_characters'] = 1
        cnt['comment_lines_judged'] = len(lines)
        if any(any(ch in txt for ch in '\r\x0b\x0c\x1c\x1d\x1e\x85\u2028\u2029')
               for txt in _strings(enc)):
            cnt['with_unusual_separators'] = 1
        for mech, detail in judge_rendering(first, lines):
            viol(mech, **detail)
        if com.lines != before:
            viol('comment-object-changed-by-rendering', before=before[:10], after=com.lines[:10])
        second = str(com)
        if second != first:
            viol('render-not-idempotent', first=first[:120], second=second[:120])
        # the comment handed on as an object: in a list of contents, as the content of a chunk
        # with every kind of appendix - the library composes file headers that way
        rendered = first.split('\n')[:-1] if first else []
        pours = [('in-list', lambda: text_gen.TextBlock([com])),
                 ('chunk', lambda: text_gen.chunk(com)),
                 ('chunk-no-appendix', lambda: text_gen.chunk(com, None)),
                 ('chunk-empty-appendix', lambda: text_gen.chunk(com, '')),
                 ('chunk-text-appendix', lambda: text_gen.chunk(com, 'int x;')),
                 ('cond_chunk', lambda: text_gen.cond_chunk(None, com, None, None)),
                 ('namespace-contents', lambda: _inner(cpp_gen.Namespace(
                     scoping_ns(['A', 'B']), com), 1, 1)),
                 ('struct-contents', lambda: _inner(cpp_gen.Struct('S', com), 2, 1)),
                 ('class-contents', lambda: _inner(cpp_gen.Class('K', com), 2, 1))]
        how_pour, pour = pours[len(lines) % len(pours)]
        if any(ln.strip() for ln in lines):
            block = pour()
            cnt[f'poured_{how_pour}'] = 1
            got = [] if block is None else block.lines
            if got[:len(rendered)] != rendered:
                viol(f'comment-poured-into-{how_pour}-loses-its-rendering', rendered=rendered[:6],
                     got=got[:6])
        # a comment that is still empty when it is handed over as the contents of a namespace,
        # struct or class (a notes block filled later): whatever is added through the clause's
        # contents afterwards is comment text of that comment - never code between the braces
        if any(ln.strip() for ln in lines):
            empty = cpp_gen.Comment()
            which = len(lines) % 3
            clause = [lambda: cpp_gen.Namespace(scoping_ns(['A']), empty),
                      lambda: cpp_gen.Struct('S', empty), lambda: cpp_gen.Class('K', empty)][which]()
            clause.contents += T.decode(enc, text_gen.TextBlock)
            head = 1 if which == 0 else 2
            inner = str(clause).split('\n')[:-1][head:-1]
            cnt['clauses_whose_empty_comment_was_filled_after_hand_over'] = 1
            bare = [ln for ln in inner if ln.strip() and not ln.lstrip().startswith('//')]
            if bare:
                viol('text-added-to-a-comment-held-by-a-clause-renders-as-code',
                     clause=['namespace', 'struct', 'class'][which], lines=bare[:4])
        # the same text as the description block of a user-made support file (SupportFileCfg +
        # generate_cpp_code): everything before '#pragma once' is comment, the block handed
        # over is left as it was, and generating twice gives the same file
        if lines and len(lines) % 3 == 0:
            from dznpy import support_files as SF  # pylint: disable=import-outside-toplevel
            header = text_gen.TextBlock(list(lines))
            cfg = SF.SupportFileCfg(header=header, body=text_gen.TextBlock('struct QZ {};'))
            one = SF.generate_cpp_code(cfg)
            two = SF.generate_cpp_code(cfg)
            cnt['support_file_descriptions_rendered'] = 1
            if header.lines != lines:
                viol('support-file-generation-changed-the-description-block',
                     before=lines[:8], after=header.lines[:12])
            if one != two:
                viol('support-file-differs-when-generated-again', first=one[:200], second=two[:200])
            top = one.split('#pragma once')[0].split('\n')
            if any(ln.strip() and not ln.startswith('//') for ln in top):
                viol('support-file-description-leaves-the-comment',
                     lines=[ln for ln in top if ln.strip() and not ln.startswith('//')][:5])
        if case.get('extend') is not None:
            ehow = case.get('extend_how', 'append')
            ext = case['extend']
            more = lines + T.ref_lines(ext)
            headed_ext = isinstance(ext, dict) and 'tb' in ext and bool(ext.get('header'))
            if headed_ext and ehow in ('iadd', 'trim', 'append'):
                # handed over directly, a headed block may leave its header behind (see above)
                more = lines + T.ref_lines(ext['tb'])
                probe = cpp_gen.Comment(T.decode(ext, text_gen.TextBlock))
                if probe.lines != T.ref_lines(ext['tb']):
                    more = lines + T.ref_lines(ext)
            if ehow == 'iadd':
                com += T.decode(case['extend'], text_gen.TextBlock)
            elif ehow == 'lines-list':
                # the lines buffer is handed out for extension: extend it directly
                for line in T.ref_lines(case['extend']):
                    com.lines.append(line)
            elif ehow == 'lines-setter':
                com.lines = list(more)
            elif ehow == 'trim':
                # extend, render, then trim the empty lines off both ends and render again
                com.append(T.decode(case['extend'], text_gen.TextBlock))
                str(com)
                com.trim()
                while more and more[0] == '':
                    more.pop(0)
                while more and more[-1] == '':
                    more.pop()
                if com.lines != more:
                    viol('comment-lines-differ-from-reference:after-trim', expected=more[:10],
                         got=com.lines[:10])
            else:
                com.append(T.decode(case['extend'], text_gen.TextBlock))
            cnt['extended_after_render'] = 1
            cnt[f'changed_after_render_via_{ehow}'] = 1
            for mech, detail in judge_rendering(str(com), more):
                viol(mech + ':after-extend', **detail)
    except Exception as exc:  # pylint: disable=broad-except
        info = common.classify_exception(exc)
        viol(f'exception:{info["type"]}@{info["where"]}', **info)
    out['digest'] = common.digest(case)
    out['nontrivial'] = len(T.ref_lines(case['content'])) >= 2
    out['sample'] = case
    return out


def _strings(enc):
    if isinstance(enc, str):
        yield enc
    elif isinstance(enc, list):
        for item in enc:
            yield from _strings(item)
    elif isinstance(enc, dict):
        for _k, val in enc.get('dict', []):
            yield from _strings(val)
        if 'tb' in enc:
            yield from _strings(enc['tb'])


def strip_comment_lines(text: str):
    return [ln for ln in text.split('\n') if not ln.lstrip().startswith('//')]


def lexer_residue(path_dir: str, name: str, text: str):
    """Token residue after the compiler's lexer removed comments (None if g++ fails)."""
    # the name comes from the library and may hold characters the interpreter's file system
    # encoding cannot express (ASCII locale, vlib.surroundings): paths as UTF-8 bytes
    path = os.path.join(path_dir, name).encode('utf-8')
    with open(path, 'w', encoding='utf-8', newline='') as fh:
        fh.write(text)
    proc = subprocess.run([b'g++', b'-std=c++17', b'-x', b'c++', b'-fpreprocessed', b'-dD', b'-E',
                           b'-P', path], capture_output=True, timeout=60)
    if proc.returncode != 0:
        return None, proc.stderr.decode('utf-8', 'replace')[-300:]
    return [ln for ln in proc.stdout.decode('utf-8', 'replace').split('\n') if ln.strip()], ''


def eval_build_pair(arg):
    """Two builds that differ only in copyright / creator_info."""
    seed, stream, scratch = arg
    common.import_dznpy()
    rng = random.Random(f'{PROP}:build:{seed}:{stream}')
    gen, _ent, enc, _info = cfggen.gen_shell_case(rng)
    doc = M.to_json(gen.model)
    benign = dict(enc, copyright='Copyright (c) benign', creator=None)
    hostile = dict(enc, copyright='\n'.join(rng.choice(HOSTILE) for _ in range(rng.randint(1, 4))),
                   creator=None if rng.random() < 0.15 else '\n'.join(
                       rng.choice(HOSTILE) for _ in range(rng.randint(2, 5))))
    case = {'doc': doc, 'benign': benign, 'hostile': hostile}
    out = {'violations': [], 'counts': {}, 'digest': common.digest(case), 'nontrivial': True,
           'sample': {'copyright': hostile['copyright'], 'creator': hostile['creator']}}
    a, b = shellbuild.outcome(benign, doc), shellbuild.outcome(hostile, doc)
    if 'files' not in a or 'files' not in b:
        out['violations'].append({'mechanism': 'build-failed-on-comment-text',
                                  'detail': a.get('exc') or b.get('exc'), 'case': case})
        return out
    out['counts']['build_pairs'] = 1
    work = os.path.join(scratch, f'p{stream}')
    os.makedirs(work, exist_ok=True)
    for (name, text_a, _h), (_n, text_b, _h2) in zip(a['files'], b['files']):
        out['counts']['files_compared'] = out['counts'].get('files_compared', 0) + 1
        if strip_comment_lines(text_a) != strip_comment_lines(text_b):
            out['violations'].append({'mechanism': 'non-comment-lines-differ',
                                      'detail': {'file_kind': name.rsplit('.', 1)[-1]},
                                      'case': case})
        res_a, err_a = lexer_residue(work, 'a_' + name, text_a)
        res_b, err_b = lexer_residue(work, 'b_' + name, text_b)
        if res_a is None or res_b is None:
            out['counts']['lexer_failed'] = out['counts'].get('lexer_failed', 0) + 1
            if res_a is not None and res_b is None:
                out['violations'].append({'mechanism': 'hostile-comment-breaks-lexing',
                                          'detail': {'stderr': err_b}, 'case': case})
            continue
        out['counts']['lexer_residues_compared'] = \
            out['counts'].get('lexer_residues_compared', 0) + 1
        if res_a != res_b:
            diff = [(x, y) for x, y in zip(res_a, res_b) if x != y][:3]
            out['violations'].append({'mechanism': 'lexer-residue-differs',
                                      'detail': {'file_kind': name.rsplit('.', 1)[-1],
                                                 'first': diff,
                                                 'len_a': len(res_a), 'len_b': len(res_b)},
                                      'case': case})
    return out


def _worker(arg):
    seed, chunk_no, count = arg
    rng = random.Random(f'{PROP}:{seed}:{chunk_no}')
    agg = {'violations': [], 'counts': {}, 'cases': []}
    shared_before = T.SHARING['decoded_with_shared_pieces']
    for _ in range(count):
        case = {'content': rand_comment_content(rng),
                'how': rng.choice(['ctor', 'ctor', 'append', 'iadd']),
                'extend': rand_comment_content(rng) if rng.random() < 0.3 else None,
                'extend_how': rng.choice(['append', 'iadd', 'lines-list', 'lines-setter', 'trim'])}
        res = eval_case(case)
        for key, val in res['counts'].items():
            agg['counts'][key] = agg['counts'].get(key, 0) + val
        agg['violations'].extend(res['violations'][:2])
        agg['cases'].append((res['digest'], res['nontrivial']))
    agg['counts']['pieces_that_are_one_object_at_several_places'] = \
        T.SHARING['decoded_with_shared_pieces'] - shared_before
    agg['sample'] = case
    return agg


def main(tier: str) -> int:
    run = common.Run(PROP, tier)
    total = 5000 if tier == 'quick' else 200000
    per = 250 if tier == 'quick' else 2500
    n_pairs = 10 if tier == 'quick' else 200
    run.require('comments_rendered', 'comment_lines_judged', 'content_is_a_headed_text_block',
                'pieces_that_are_one_object_at_several_places',
                'comments_with_lines_beyond_252_characters',
                'clauses_whose_empty_comment_was_filled_after_hand_over',
                'content_holds_a_headed_text_block', 'filled_via_iadd', 'filled_via_append', 'with_unusual_separators',
                'extended_after_render', 'changed_after_render_via_lines-list',
                'changed_after_render_via_lines-setter', 'changed_after_render_via_trim',
                'poured_chunk-no-appendix', 'poured_in-list', 'poured_cond_chunk',
                'poured_namespace-contents', 'poured_struct-contents',
                'support_file_descriptions_rendered',
                'build_pairs', 'files_compared',
                'lexer_residues_compared')
    for _item, res in run.pmap(_worker, [(run.seed, i, per) for i in range(total // per)]):
        if 'harness_error' in res:
            run.mark_inconclusive('harness error: ' + res['harness_error'][-300:])
            continue
        for dig, nontrivial in res['cases']:
            run.case(dig, nontrivial)
        if len(run.samples) < 3:
            run.samples.append(common.jsonable(res['sample']))
        run.merge_counts(res['counts'])
        for v in res['violations']:
            run.violation(v['mechanism'], v.get('detail'), v.get('case'))
    scratch = run.scratch()
    for item, res in run.pmap(eval_build_pair, [(run.seed, i, scratch) for i in range(n_pairs)]):
        common.absorb(run, {'seed': item[0], 'stream': item[1], 'kind': 'build-pair'}, res)
    return run.finish(
        rule='comment texts: hostile strings (every line boundary Python knows, "*/", '
             '"#include", trailing backslash, trigraph, blank lines, leading whitespace, '
             'non-ASCII), their random concatenations, lists and nested contents -> '
             'str(Comment(x)) judged line by line, rendered twice and extended after rendering; '
             'plus pairs of whole builds differing only in copyright/creator_info, compared '
             'after deleting // lines and as g++ lexer residue; non-trivial = >=2 physical '
             'lines (comments) / every build pair',
        assumptions=['a rendered line may separate "//" and the text by one space or none; '
                     'trailing whitespace is not compared',
                     'g++ -fpreprocessed -dD -E -P is used only as a comment stripper'])


def replay(path: str) -> int:
    def ev(case):
        if 'content' in case:
            return eval_case(case)
        return eval_build_pair((case['seed'], case['stream'], __import__("tempfile").mkdtemp()))
    return common.generic_replay(PROP, ev, path)
