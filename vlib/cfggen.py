"""Random advanced-shell configurations (encodings of vlib.shellbuild) for IR components,
valid ones and single-fault variations, with the ground truth that goes with them."""
from __future__ import annotations

import random
from typing import Any, Dict, List, Optional, Tuple

from . import model as M
from . import refcfg
from .modelgen import GenOpts, ModelGen, fresh, ident

PRESETS = {
    'all_mts': ({'sts': 'NONE', 'mts': 'ALL'}, {'sts': 'NONE', 'mts': 'ALL'}),
    'all_sts': ({'sts': 'ALL', 'mts': 'NONE'}, {'sts': 'ALL', 'mts': 'NONE'}),
    'all_sts_all_mts': ({'sts': 'ALL', 'mts': 'NONE'}, {'sts': 'NONE', 'mts': 'ALL'}),
    'all_mts_all_sts': ({'sts': 'NONE', 'mts': 'ALL'}, {'sts': 'ALL', 'mts': 'NONE'}),
}

COPYRIGHTS = ['Copyright (c) Someone', 'Line 1\nLine 2\n', 'A\n\nB', '  indented\n\ttabbed',
              'ends with backslash \\', 'has */ and /* inside', '#include <evil>', 'é ü 漢字',
              'x\r\ny\rz', '??/ trigraph', 'a\x0bb\x0cc', 'l1 l2 l3', '']


def _ref_formals(gen: ModelGen, itf, direction: str) -> int:
    """Parameters of the interface's events of that direction whose extern type is declared
    as a C++ reference."""
    if itf is None:
        return 0
    data = {'.'.join(f): x.data for f, x in gen.externs}
    return sum(1 for e in itf.events if e.direction == direction for f in e.formals
               if data.get(f.type.target or '', '').strip().endswith('&'))


def comp_info(gen: ModelGen, ent) -> Dict[str, Any]:
    fqn, comp, node = ent
    ports = {}
    for port in comp.ports:
        try:
            itf = gen.interface_by_fqn(port.type.target) if port.type.target else None
        except KeyError:
            itf = None
        ports[port.name] = {'itf': port.type.target, 'direction': port.direction,
                            'injected': port.injected,
                            'n_out_ref_formals': _ref_formals(gen, itf, 'out'),
                            'n_in': sum(1 for e in itf.events if e.direction == 'in') if itf else 0,
                            'n_out': sum(1 for e in itf.events if e.direction == 'out') if itf else 0}
    return {
        'fqn': '.'.join(fqn), 'scope': list(node.fqn), 'kind': type(comp).__name__.lower(),
        'ports': ports, 'order': [p.name for p in comp.ports],
        'provides': [p.name for p in comp.ports if p.direction == 'provides'],
        'requires': [p.name for p in comp.ports
                     if p.direction == 'requires' and not p.injected],
        'injected': [p.name for p in comp.ports if p.injected],
    }


def rename_port(gen: ModelGen, ent, enc: dict, old: str, new: str) -> Dict[str, Any]:
    """Give a port of the encapsulee another name, in the model and in every place of the
    configuration encoding that names it; returns the new comp_info."""
    _fqn, comp, _node = ent
    for port in comp.ports:
        if port.name == old:
            port.name = new
    for side in ('provides', 'requires'):
        for sem in ('sts', 'mts'):
            sel = enc[side][sem]
            if isinstance(sel, list):
                enc[side][sem] = sorted(new if n == old else n for n in sel)
    if enc.get('multiclient') and enc['multiclient']['port'] == old:
        enc['multiclient']['port'] = new
    if hasattr(comp, 'bindings'):
        for b in comp.bindings:
            b.left = (new if b.left[0] == old else b.left[0], b.left[1])
            b.right = (new if b.right[0] == old else b.right[0], b.right[1])
    return comp_info(gen, ent)


def rand_side(rng: random.Random, ports: List[str], uniform: Optional[str] = None) -> dict:
    """A valid selection pair for one side.  `uniform` forces all ports to one semantics
    (needed on the provides side)."""
    if uniform is None and ports and rng.random() < 0.6:
        # mixed: explicit sets and/or a covering wildcard
        shuffled = list(ports)
        rng.shuffle(shuffled)
        k = rng.randint(0, len(shuffled))
        first, rest = shuffled[:k], shuffled[k:]
        form = rng.choice(['set_remaining', 'set_set', 'remaining_set', 'set_none'])
        if form == 'set_remaining' and first:
            pair = (sorted(first), 'REMAINING')
        elif form == 'set_set' and first and rest:
            pair = (sorted(first), sorted(rest))
        elif form == 'remaining_set' and rest:
            pair = ('REMAINING', sorted(rest))
        elif form == 'set_none' and first and not rest:
            pair = (sorted(first), 'NONE')
        else:
            pair = ('REMAINING', 'NONE')
        if rng.random() < 0.5:
            return {'sts': pair[0], 'mts': pair[1]}
        return {'sts': pair[1], 'mts': pair[0]}
    sem = uniform or rng.choice(['STS', 'MTS'])
    forms = [('ALL', 'NONE'), ('REMAINING', 'NONE')]
    if ports:
        forms.append((sorted(ports), 'NONE'))
    mine, other = rng.choice(forms)
    return {'sts': mine, 'mts': other} if sem == 'STS' else {'sts': other, 'mts': mine}


def multiclient_options(gen: ModelGen, info: Dict[str, Any]) -> List[dict]:
    """Every valid multi-client configuration this component admits (ground truth from IR)."""
    out = []
    decls = gen.decls()
    for pname in info['provides']:
        itf_fqn = info['ports'][pname]['itf']
        for (ifqn, itf, _node), mc in gen.mc_interfaces:
            if '.'.join(ifqn) != itf_fqn:
                continue
            claim = next(e for e in itf.events if e.name == mc['claim'])
            hits = M.spec_lookup(decls, ifqn, claim.reply.ids)
            if len(hits) != 1 or hits[0][0] != 'enums':
                continue
            for fld in mc['fields']:
                out.append({'port': pname, 'claim': mc['claim'], 'reply': [fld],
                            'release': mc['release'], 'enum_fqn': mc['enum_fqn'],
                            'fields': list(mc['fields']),
                            'preferred': mc.get('prefer_reply') == fld})
    return out


def rand_cfg(rng: random.Random, gen: ModelGen, ent, multiclient: Optional[bool] = None,
             hostile_text: bool = False) -> dict:
    """A configuration the reference judges ACCEPT for this component."""
    info = comp_info(gen, ent)
    mc = None
    options = multiclient_options(gen, info)
    if options and (multiclient or (multiclient is None and rng.random() < 0.5)):
        mc = dict(rng.choice(options))
        # prefer a granting value that another enumerator of the same enum merely ends with
        # or starts with (Ok next to NotOk), when the enum has such a pair
        related = [o for o in options if o['port'] == mc['port'] and o['claim'] == mc['claim']
                   and any(f != o['reply'][0] and (f.endswith(o['reply'][0]) or
                                                   f.startswith(o['reply'][0]))
                           for f in o.get('fields', []))]
        if related and rng.random() < 0.7:
            mc = dict(rng.choice(related))
        forced = [o for o in options if o.get('preferred')]
        if forced:
            mc = dict(rng.choice(forced))
    if mc is not None:
        provides = rand_side(rng, info['provides'], uniform='MTS')
        requires = rand_side(rng, info['requires'])
    elif rng.random() < 0.35:
        provides, requires = PRESETS[rng.choice(sorted(PRESETS))]
        provides, requires = dict(provides), dict(requires)
    else:
        provides = rand_side(rng, info['provides'], uniform=rng.choice(['STS', 'MTS']))
        requires = rand_side(rng, info['requires'])
    verdict, reason, _map = refcfg.judge(provides, requires, info['provides'], info['requires'],
                                         info['injected'])
    assert verdict == refcfg.ACCEPT, (verdict, reason, provides, requires, info)
    base = rng.choice(['Model', 'M' + str(rng.randrange(100)), ident(rng, 'camel')])
    if rng.random() < 0.12:
        # a model file is named by its author, not by a C++ programmer
        base = rng.choice(['my-model', 'My.Model', '2nd', 'a b', 'päck'])
    enc = {
        'encapsulee': info['fqn'],
        'encapsulee_form': rng.choice(['ids', 'ids', 'ids', 'dot', 'colons', 'list']),
        'filename': rng.choice(['', 'dir/', '/abs/path/', './a/../']) + base + rng.choice(
            ['.dzn', '.dzn', '.json', '']),
        'suffix': rng.choice(['Shell', 'AdvShell', '_adv', 'X1']),
        'provides': provides, 'requires': requires, 'multiclient': mc,
        'origin': rng.choice(['create', 'import']),
        'verbose': rng.random() < 0.25,
        'copyright': rng.choice(COPYRIGHTS) if hostile_text else 'Copyright (c) test',
        'creator': rng.choice([None, 'me', 'tool v1\nline 2'] + (COPYRIGHTS if hostile_text else [])),
        # never generated as model names; 'Dzn' is the identifier the library itself appends
        'prefix': rng.choice([None, None, ['QZOther'], ['QZMy', 'QZOwn', 'QZPrefix'], ['qz_1x'],
                              ['QZAcme', 'Dzn'], ['Dzn']]),
    }
    if mc is not None:
        enc['multiclient'] = {k: mc[k] for k in ('port', 'claim', 'reply', 'release')}
    return enc


LONG_RUN = '/opt/toolchains/industrial-automation/controllers/firmware/platform/heating/zone-a/' \
           'bin/generate-advanced-shell-wrapper'          # 120 characters without a blank


def enlarge(rng: random.Random, enc: dict):
    """Sizes beyond the usual in a configuration: a model file base name of about 100
    characters (the shell's struct and file names with it), a namespace prefix of more than 64
    characters, a copyright notice pasted as one line of some 300 characters, a creator text
    that holds a path of 120 characters without a blank."""
    directory = enc['filename'].rsplit('/', 1)[0] + '/' if '/' in enc['filename'] else ''
    words = ['Temperature', 'Controller', 'Firmware', 'Platform', 'Heating', 'Zone', 'Industrial',
             'Automation', 'Measurement', 'Configuration']
    base = ''
    while len(base) < 98:
        base += rng.choice(words)
    enc['filename'] = directory + base[:rng.choice([97, 100, 104])] + '.dzn'
    enc['prefix'] = ['QZAcme', 'QZIndustrial', 'QZAutomation', 'QZControllers', 'QZFirmware',
                     'QZPlatform', 'QZHeating', rng.choice(['QZZoneA', 'QZZoneB'])]
    notice = 'Copyright (c) ' + ' '.join(rng.choice(words) for _ in range(40))
    enc['copyright'] = notice[:rng.choice([253, 300, 400])]
    enc['creator'] = rng.choice([LONG_RUN, 'generated by ' + LONG_RUN + ' --all', 'x' * 101])
    enc['big'] = True


def expected_semantics(enc: dict, info: Dict[str, Any]):
    return refcfg.judge(enc['provides'], enc['requires'], info['provides'], info['requires'],
                        info['injected'])


def shell_opts(rng: random.Random, want_multiclient: bool = False, small: bool = False,
               mc_decoys: str = 'random', mc_shape: Optional[int] = None,
               name_families: Optional[float] = None,
               ref_externs: Optional[float] = None, mc_enum_family: bool = False,
               mc_no_outs: bool = False, big: bool = False) -> GenOpts:
    """Generator options for models that are meant to be wrapped in a shell."""
    return GenOpts(
        max_ns_depth=rng.choice([0, 1, 2, 3]), max_ns_children=rng.choice([1, 2]),
        multi_id_ns=rng.choice([0.0, 0.3]), reopen_ns=rng.choice([0.0, 0.3]),
        reuse_names=rng.choice([0.0, 0.3, 0.6]),
        n_externs=(1, 3), n_enums=(1, 2), n_interfaces=(1, 3),
        n_events=(0, 3) if small else (0, 5), n_formals=(0, 2) if small else (0, 4),
        n_components=(1, 2), n_systems=(0, 1),
        n_provides=(0, 2) if small else (0, 3), n_requires=(0, 2) if small else (0, 3),
        n_injected=(0, 1), n_foreigns=(0, 1), n_subints=(0, 1), noise=0.0,
        want_multiclient=want_multiclient, global_component=0.2, mc_decoys=mc_decoys,
        mc_shape=mc_shape, name_families=0.15 if name_families is None else name_families,
        ref_externs=0.25 if ref_externs is None else ref_externs, mc_enum_family=mc_enum_family,
        mc_no_outs=mc_no_outs, big=big)


def gen_shell_case(rng: random.Random, want_multiclient: Optional[bool] = None,
                   small: bool = False, hostile_text: bool = False, mc_decoys: str = 'random',
                   mc_position: Optional[str] = None, mc_shape: Optional[int] = None,
                   name_families: Optional[float] = None, accept=None,
                   ref_externs: Optional[float] = None, twins: bool = False,
                   mc_enum_family: bool = False, mc_no_outs: bool = False, big: bool = False):
    """(gen, entry, cfg encoding, info): one model, one encapsulee, one valid configuration.
    `big`: sizes beyond the usual - ten and more ports / events, identifiers of 24..56
    characters, a long model file name, prefix, copyright line and creator text."""
    wmc = rng.random() < 0.4 if want_multiclient is None else want_multiclient
    for _attempt in range(400):
        gen = ModelGen(rng, shell_opts(rng, wmc, small, mc_decoys, mc_shape, name_families,
                                       ref_externs, mc_enum_family, mc_no_outs, big))
        gen.build_skeleton()
        o = gen.o
        for _ in range(gen._rint(o.n_externs)):
            gen.add_extern()
        for _ in range(gen._rint(o.n_enums)):
            gen.add_enum()
        for _ in range(gen._rint(o.n_subints)):
            gen.add_subint()
        for _ in range(gen._rint(o.n_interfaces)):
            gen.add_interface()
        for ient in list(gen.interfaces):
            gen.fill_events(ient)
        if wmc:
            gen.add_mc_interface()
        for _ in range(gen._rint(o.n_foreigns)):
            gen.add_component('foreign')
        for _ in range(gen._rint(o.n_components)):
            gen.add_component('component')
        if wmc:
            # make sure some component provides the multi-client interface
            (ifqn, _itf, _n), _mc = gen.mc_interfaces[0]
            fqn, comp, node = rng.choice(gen.components)
            ref = gen._ref(node.fqn, ifqn, 'interfaces')
            if ref is not None:
                taken = {p.name[0].upper() + p.name[1:] for p in comp.ports}
                taken.add(fqn[-1][0].upper() + fqn[-1][1:])
                pname = fresh(rng, taken, rng.choice(['single', 'snake', 'camel']),
                              casefold_first=True)
                comp.ports.insert(rng.randint(0, len(comp.ports)),
                                  M.Port(pname, ref, 'provides'))
        for _ in range(gen._rint(o.n_systems)):
            gen.add_component('system')
        if rng.random() < 0.3:
            # imports, file names, element classes the parser does not know, non-dict elements
            gen.add_noise()
        if not gen.respell_all():
            continue
        ents = gen.components
        if wmc:
            ents = [e for e in ents if multiclient_options(gen, comp_info(gen, e))]
        if not ents:
            continue
        ent = rng.choice(ents)
        if twins:
            if isinstance(ent[1], M.System) or not gen.add_twins(ent, twins == 'same-names') or \
                    not gen.respell_all():
                continue
        if accept is not None and not accept(comp_info(gen, ent)):
            continue
        enc = rand_cfg(rng, gen, ent, multiclient=wmc, hostile_text=hostile_text)
        if big:
            enlarge(rng, enc)
        if mc_position and enc.get('multiclient'):
            place_multiclient_port(rng, gen, ent, enc, mc_position)
        return gen, ent, enc, comp_info(gen, ent)
    raise RuntimeError('could not generate a shell case')


def place_multiclient_port(rng: random.Random, gen: ModelGen, ent, enc: dict, position: str):
    """Make sure the component has at least two further provides ports (of interfaces with
    out-events where possible) and put the multi-client port first / in the middle / last
    among the provides ports in declaration order."""
    fqn, comp, node = ent
    mc_name = enc['multiclient']['port']
    others = [p for p in comp.ports if p.direction == 'provides' and p.name != mc_name]
    cands = [e for e in gen.interfaces if any(ev.direction == 'out' for ev in e[1].events)] \
        or gen.interfaces
    taken = {p.name[0].upper() + p.name[1:] for p in comp.ports}
    taken.add(fqn[-1][0].upper() + fqn[-1][1:])
    while len(others) < 2:
        ifqn, _itf, _n = rng.choice(cands)
        ref = gen._ref(node.fqn, ifqn, 'interfaces')
        if ref is None:
            break
        port = M.Port(fresh(rng, taken, rng.choice(['snake', 'camel', 'digit']), casefold_first=True),
                      ref, 'provides')
        comp.ports.append(port)
        others.append(port)
        enc['provides'] = {'sts': 'NONE', 'mts': 'ALL'}
    mc_port = next(p for p in comp.ports if p.name == mc_name)
    rest = [p for p in comp.ports if p is not mc_port]
    prov_idx = [i for i, p in enumerate(rest) if p.direction == 'provides']
    if not prov_idx:
        return
    where = {'first': prov_idx[0], 'last': prov_idx[-1] + 1,
             'middle': prov_idx[len(prov_idx) // 2]}[position]
    rest.insert(where, mc_port)
    comp.ports[:] = rest


def builds_with_invariant(run, install, state, n_builds: int):
    """C17: run whole builds with the TextBlock invariant installed."""
    from . import shellbuild  # pylint: disable=import-outside-toplevel
    from . import common  # pylint: disable=import-outside-toplevel
    common.import_dznpy()
    install()
    rng = run.rng('builds')
    before = state['evals']
    done = 0
    for _ in range(n_builds):
        gen, _ent, enc, _info = gen_shell_case(rng, hostile_text=True)
        res = shellbuild.outcome(enc, M.to_json(gen.model))
        if 'files' in res:
            done += 1
    run.count('invariant_evaluations_during_builds', state['evals'] - before)
    run.count('builds_with_invariant', done)
    for broken in state['broken']:
        run.violation(f'invariant:stored-line-with-line-break@{broken["where"]}:during-build',
                      broken, {'note': 'whole-build workload', 'seed': run.seed})
    del state['broken'][:]
