"""Independent reference semantics for dznpy.text_gen (C17, C18, C19): own line splitter,
own flattener, own indenter.  Nothing here imports dznpy; contents are described by a tagged,
JSON-able encoding so that every case can be stored and replayed:

    None | bool | int | float | str | [ ... ]            as themselves
    {'dict': [[key, value], ...]}                         a dict (insertion order)
    {'tb': content, 'header': content-or-None}            a TextBlock
"""
from __future__ import annotations

import random
from typing import Any, List, Optional

# every line boundary str.splitlines() recognises
BOUNDARIES = ['\n', '\r', '\r\n', '\v', '\f', '\x1c', '\x1d', '\x1e', '\x85', '\u2028', '\u2029']
BOUNDARY_CHARS = set('\n\r\v\f\x1c\x1d\x1e\x85\u2028\u2029')


def split_lines(text: str) -> List[str]:
    """Own splitter: a boundary terminates a line ('\\r\\n' counts once); an unterminated rest
    is a line; the empty string is one blank line."""
    if text == '':
        return ['']
    out: List[str] = []
    cur: List[str] = []
    i, n = 0, len(text)
    while i < n:
        ch = text[i]
        if ch in BOUNDARY_CHARS:
            out.append(''.join(cur))
            cur = []
            if ch == '\r' and i + 1 < n and text[i + 1] == '\n':
                i += 1
        else:
            cur.append(ch)
        i += 1
    if cur:
        out.append(''.join(cur))
    return out


def has_boundary(line: str) -> bool:
    return any(ch in BOUNDARY_CHARS for ch in line)


def ref_lines(enc: Any) -> List[str]:
    """Lines a text block must hold after `enc` was put into it."""
    if enc is None:
        return []
    if isinstance(enc, bool):
        return [str(enc)]
    if isinstance(enc, (int, float)):
        return [str(enc)]
    if isinstance(enc, str):
        return split_lines(enc)
    if isinstance(enc, list):
        out: List[str] = []
        for item in enc:
            out.extend(ref_lines(item))
        return out
    if isinstance(enc, dict) and 'dict' in enc:
        out = []
        for _key, val in enc['dict']:
            out.extend(ref_lines(val))
        return out
    if isinstance(enc, dict) and 'tb' in enc:
        return ref_header(enc.get('header')) + ref_lines(enc['tb'])
    raise TypeError(enc)


def ref_header(enc: Any) -> List[str]:
    return ref_lines(enc) if enc else []


def has_content(enc: Any) -> Optional[bool]:
    """True: certainly non-empty content; False: certainly empty (None / empty containers,
    recursively); None: consists of empty strings only - the statement leaves that open."""
    if enc is None:
        return False
    if isinstance(enc, (bool, int, float)):
        return True
    if isinstance(enc, str):
        return True if enc else None
    if isinstance(enc, list):
        subs = [has_content(x) for x in enc]
    elif 'dict' in enc:
        subs = [has_content(v) for _k, v in enc['dict']]
    else:
        lines = ref_lines(enc)
        return bool(lines) if (not lines or any(lines)) else None
    if any(s is True for s in subs):
        return True
    if any(s is None for s in subs):
        return None
    return False


SHARING = {'decoded_with_shared_pieces': 0}


def decode(enc: Any, textblock_cls, _share: Optional[dict] = None) -> Any:
    """Build the real Python content (with real TextBlock instances) from the encoding.
    For every other encoding (by its check sum) equal non-empty lists and dicts inside it are
    ONE object used at several places - a separator row or a paragraph a caller defines once
    and uses twice - instead of equal copies."""
    if _share is None:
        import json  # pylint: disable=import-outside-toplevel
        import zlib  # pylint: disable=import-outside-toplevel
        _share = {} if zlib.crc32(json.dumps(enc, sort_keys=True).encode()) % 2 else False
    if enc is None or isinstance(enc, (bool, int, float, str)):
        return enc
    key = None
    if _share is not False and isinstance(enc, (list, dict)) and enc and 'tb' not in enc:
        import json  # pylint: disable=import-outside-toplevel
        key = json.dumps(enc, sort_keys=True)
        if key in _share:
            SHARING['decoded_with_shared_pieces'] += 1
            return _share[key]
    if isinstance(enc, list):
        out: Any = [decode(x, textblock_cls, _share) for x in enc]
    elif 'dict' in enc:
        out = {k: decode(v, textblock_cls, _share) for k, v in enc['dict']}
    elif 'tb' in enc:
        hdr = enc.get('header')
        if hdr is None:
            return textblock_cls(decode(enc['tb'], textblock_cls, _share))
        return textblock_cls(decode(enc['tb'], textblock_cls, _share),
                             header=decode(hdr, textblock_cls, _share))
    else:
        raise TypeError(enc)
    if key is not None:
        _share[key] = out
    return out


# ---------------------------------------------------------------------------------------------
# generators
# ---------------------------------------------------------------------------------------------

PLAIN = ['a', 'B', 'xy', ' ', '  ', '\t', '0', '//', '-', '{', 'é']


def rand_string(rng: random.Random, boundaries: bool = True, maxlen: int = 6) -> str:
    n = rng.choice([0, 0, 1, 1, 2, 3, 4, maxlen])
    pool = PLAIN + (BOUNDARIES if boundaries else [])
    return ''.join(rng.choice(pool) for _ in range(n))


def rand_content(rng: random.Random, depth: int = 3, nested_header: bool = False) -> Any:
    """Random nesting over str/int/float/bool/None/list/dict/TextBlock."""
    kinds = ['str'] * 5 + ['none', 'int', 'float', 'bool']
    if depth > 0:
        kinds += ['list'] * 3 + ['dict', 'tb']
    kind = rng.choice(kinds)
    if kind == 'str':
        return rand_string(rng)
    if kind == 'none':
        return None
    if kind == 'int':
        return rng.choice([0, 1, -7, 12345])
    if kind == 'float':
        return rng.choice([0.0, 1.5, -2.25])
    if kind == 'bool':
        return rng.random() < 0.5
    if kind == 'list':
        items = [rand_content(rng, depth - 1) for _ in range(rng.randint(0, 4))]
        pieces = [x for x in items if isinstance(x, (list, dict)) and x and 'tb' not in x]
        if pieces and rng.random() < 0.5:
            # a piece used twice (decode() makes the two one object half of the time)
            items.insert(rng.randint(0, len(items)), rng.choice(pieces))
        return items
    if kind == 'dict':
        return {'dict': [[f'k{i}', rand_content(rng, depth - 1)]
                         for i in range(rng.randint(0, 3))]}
    enc = {'tb': rand_content(rng, depth - 1)}
    if nested_header and rng.random() < 0.3:
        enc['header'] = rand_string(rng) or 'H'
    return enc


def rand_nonempty_text(rng: random.Random) -> Any:
    """Content that certainly holds text (for preambles / appendices / responses)."""
    choice = rng.random()
    if choice < 0.5:
        return rng.choice(['p', 'Pre:', 'x y', '// c']) + rng.choice(['', '\nq', '\r\nz'])
    if choice < 0.8:
        return [rng.choice(['l1', 'l 2']), rng.choice(['m', 7, 'n\no'])]
    return {'tb': ['t1', 't2']}


# ---------------------------------------------------------------------------------------------
# reference indenter (C18)
# ---------------------------------------------------------------------------------------------

def is_blank(line: str) -> bool:
    return line.strip() == ''


def ref_indent_prefixes(indentor: str, spaces: int, glyph: Optional[str]):
    """(whitespace prefix, bullet prefix) of an indenter configuration.
    SPACES: glyph + one space, padded with spaces to the indent width (wider if the glyph
    needs it); continuation prefix as wide as the bullet prefix.  TAB: glyph + tab, tab."""
    if indentor == 'tab':
        return '\t', (None if glyph is None else glyph + '\t')
    if glyph is None:
        return ' ' * spaces, None
    bullet = glyph + ' '
    if len(bullet) < spaces:
        bullet = bullet + ' ' * (spaces - len(bullet))
    return ' ' * len(bullet), bullet
