"""Shared per-program workers of the C++ checks: generate (model, configuration), let dznpy
build the shell, compile it against the mock runtime, play a script, return the log."""
from __future__ import annotations

import os
import random
import shutil
from typing import Any, Callable, Dict, List, Optional

from . import cfggen
from . import common
from . import cxxlab
from . import model as M
from . import scripts


def meta_of(prog) -> Dict[str, Any]:
    return {'mapping': prog.mapping, 'ports': prog.info['ports'], 'mc': scripts.mc_info(prog),
            'origin': prog.enc.get('origin', 'create')}


def sanitizer_reports(stderr: str) -> List[str]:
    out = []
    for line in stderr.splitlines():
        if 'ERROR: AddressSanitizer' in line or 'runtime error:' in line or \
                'WARNING: ThreadSanitizer' in line or 'ERROR: LeakSanitizer' in line:
            msg = line.split('Sanitizer:', 1)[-1] if 'Sanitizer:' in line else \
                line.split('runtime error:', 1)[-1]
            out.append(msg.strip().split(' on address')[0].split(' (pid')[0][:80])
    return out


def make_program(prop: str, seed: int, stream: int, scratch: str,
                 want_mc: Optional[bool] = None, small: bool = False,
                 mc_decoys: str = 'random', mc_position: Optional[str] = None,
                 mc_shape: Optional[int] = None, accept=None,
                 ref_externs: Optional[float] = None, twins: bool = False,
                 mc_enum_family: bool = False, mc_no_outs: bool = False, big: bool = False):
    rng = random.Random(f'{prop}:{seed}:{stream}')
    gen, ent, enc, info = cfggen.gen_shell_case(rng, want_multiclient=want_mc, small=small,
                                                mc_decoys=mc_decoys, mc_position=mc_position,
                                                mc_shape=stream if mc_shape is None else mc_shape,
                                                accept=accept, ref_externs=ref_externs, twins=twins,
                                                mc_enum_family=mc_enum_family, mc_no_outs=mc_no_outs,
                                                big=big)
    work = os.path.join(scratch, f'{prop.lower()}_{stream}')
    prog = cxxlab.ShellProgram(gen, ent, enc, info, work)
    prog.release = (stream // 2) % 2 == 1
    case = {'seed': seed, 'stream': stream, 'cfg': enc, 'component': info['fqn'],
            'ports': info['ports'], 'doc': M.to_json(gen.model)}
    return prog, case, rng


def build_or_report(prog, case, out, flavors) -> bool:
    """Generate + compile; a failure here is reported once, tagged for C06 to explain."""
    if not prog.generate():
        out['violations'].append({'mechanism': f'valid-build-failed:{prog.build_exc["type"]}',
                                  'detail': prog.build_exc, 'case': case})
        return False
    key = 'programs_built_as_release' if prog.release else 'programs_built_as_development'
    out['counts'][key] = out['counts'].get(key, 0) + 1
    if prog.enc.get('big'):
        out['counts']['programs_of_big_size'] = out['counts'].get('programs_of_big_size', 0) + 1
    for flavor in flavors:
        if not prog.compile(flavor):
            if 'watchdog' in prog.compile_err:
                out['inconclusive'] = 'compiler watchdog'
                return False
            err = cxxlab.first_error(prog.compile_err)
            out['violations'].append({
                'mechanism': f'shell-does-not-compile:{cxxlab.normalise_error(err)}',
                'detail': {'error': err, 'flavor': flavor}, 'case': case,
                'files': {'compiler.txt': prog.compile_err[-6000:], 'main.cc': open(
                    os.path.join(prog.dir, 'main.cc'), encoding='utf-8').read()}})
            return False
    return True


def run_and_collect(prog, script: str, flavor: str, tag: str, out, case, timeout: int = 120):
    """Run one script; harness-level trouble (crash, sanitizer report, watchdog) is folded
    into `out`.  Returns the log or None."""
    res = prog.run(script, flavor, tag, timeout)
    cnt = out['counts']
    cnt['runs'] = cnt.get('runs', 0) + 1
    cnt['events_logged'] = cnt.get('events_logged', 0) + len(res['log'])
    reports = sanitizer_reports(res['stderr'])
    if reports:
        out['violations'].append({'mechanism': f'sanitizer:{flavor}:{reports[0]}',
                                  'detail': {'reports': reports[:5], 'script_tag': tag},
                                  'case': case,
                                  'files': {'stderr.txt': res['stderr'][-8000:], 'script.txt': script}})
        return res['log'] or None
    if res['timeout']:
        out['watchdog'] = {'tag': tag, 'script': script}
        return None
    if res['rc'] != 0 or not res['log'] or res['log'][-1].get('kind') != 'end':
        out['violations'].append({'mechanism': 'harness-run-failed',
                                  'detail': {'rc': res['rc'], 'stderr': res['stderr'][-500:],
                                             'last': res['log'][-1] if res['log'] else None,
                                             'script_tag': tag},
                                  'case': case, 'files': {'script.txt': script}})
        return None
    stale = [rec for rec in res['log'] if rec.get('kind') == 'ilog_stale']
    if stale:
        out['violations'].append({'mechanism': 'shell-logs-through-the-callers-logger-object',
                                  'detail': {'messages': [r['d'].get('msg', '')[:80] for r in stale[:3]],
                                             'script_tag': tag},
                                  'case': case, 'files': {'script.txt': script}})
    for rec in res['log']:
        if rec.get('kind') in ('unknown_op', 'op_threw', 'unparsable', 'construct_failed',
                               'final_threw'):
            cnt['harness_' + rec['kind']] = cnt.get('harness_' + rec['kind'], 0) + 1
    return res['log']


def finish_program(prog, out, case, nontrivial=True, sample=None):
    shutil.rmtree(prog.dir, ignore_errors=True)
    out['digest'] = common.digest({'doc': case['doc'], 'cfg': case['cfg']})
    out['nontrivial'] = nontrivial
    out['sample'] = sample or {'component': case['component'], 'cfg': case['cfg'],
                               'ports': {k: v['direction'] + ('/injected' if v['injected'] else '')
                                         for k, v in case['ports'].items()}}
    return out


def drive(run, worker: Callable, jobs: List[Any], timeout: int = 3600):
    """Common driver loop for per-program workers."""
    for item, res in run.pmap(worker, jobs, timeout=timeout):
        if res.get('inconclusive'):
            run.mark_inconclusive(res['inconclusive'])
        if res.get('watchdog'):
            run.mark_inconclusive(f'harness watchdog fired ({res["watchdog"]["tag"]})')
        common.absorb(run, {'seed': item[0], 'stream': item[1]}, res)
