"""Seeded random generators of well-formed Dezyne models in the IR of vlib.model."""
from __future__ import annotations

import random
from dataclasses import dataclass, field
from typing import Any, Dict, List, Optional, Tuple

from . import model as M

CPP_KEYWORDS = {
    'alignas', 'alignof', 'and', 'and_eq', 'asm', 'auto', 'bitand', 'bitor', 'bool', 'break',
    'case', 'catch', 'char', 'class', 'compl', 'const', 'constexpr', 'continue', 'default',
    'delete', 'do', 'double', 'else', 'enum', 'explicit', 'export', 'extern', 'false', 'float',
    'for', 'friend', 'goto', 'if', 'inline', 'int', 'long', 'mutable', 'namespace', 'new', 'not',
    'not_eq', 'nullptr', 'operator', 'or', 'or_eq', 'private', 'protected', 'public', 'register',
    'return', 'short', 'signed', 'sizeof', 'static', 'struct', 'switch', 'template', 'this',
    'throw', 'true', 'try', 'typedef', 'typeid', 'typename', 'union', 'unsigned', 'using',
    'virtual', 'void', 'volatile', 'wchar_t', 'while', 'xor', 'xor_eq', 'final', 'override',
    'in', 'out', 'inout', 'provides', 'requires', 'type', 'meta', 'main', 'errno', 'assert',
    'NULL', 'EOF', 'stdin', 'stdout', 'stderr', 'linux', 'unix', 'i386',
}
# identifiers the shell, the support files or the mock use themselves (D11 keeps formals
# out of these; they are only drawn from by C06's hostile pool)
RESERVED = {'dzn', 'std', 'vx', 'vmon', 'Dzn', 'identifier', 'r', 'lockAndData', 'port', 'log',
            'm_dispatcher', 'm_encapsulee', 'm_runtime', 'm_locator', 'locator',
            'prototypeLocator', 'multiclientLog', 'encapsuleeInstanceName', 'dzn_meta',
            'dzn_rt', 'dzn_locator', 'check_bindings', 'connect', 'self', 'Sts', 'Mts', 'ILog',
            'FinalConstruct', 'Locator', 'FacilitiesCheck', 'parentComponentMeta', 'result',
            'ClientIdentifier', 'MultiClientSelector', 'MutexWrapped', 'CreatePort', 'vh', 'vs'}

HEADS = 'abcdefghkmnpqstuvwxyzABCDEFGHKMNPQSTUVWXYZ_'
TAILS = 'abcxyzABCXYZ0123456789_'


# sizes are an input dimension of their own (round 11): with LONG['p'] > 0 that share of the
# identifiers is 24..56 characters long (generated lines beyond 160 columns, struct and file
# names beyond 32 / 64 / 96 characters, small-string buffers exceeded)
LONG = {'p': 0.0}
WORDS = ['Temperature', 'Threshold', 'Was', 'Exceeded', 'Now', 'Controller', 'Firmware',
         'Platform', 'Heating', 'Zone', 'Industrial', 'Automation', 'sensor', 'identifier',
         'Configuration', 'Request', 'Response', 'Notification', '_with_', 'Measurement']


def ident(rng: random.Random, style: Optional[str] = None) -> str:
    short = _ident(rng, style)
    if LONG['p'] and rng.random() < LONG['p']:
        while len(short) < 24:
            short += rng.choice(WORDS)
        return short[:56].replace('__', '_x').rstrip('_') or short
    return short


def _ident(rng: random.Random, style: Optional[str] = None) -> str:
    """Identifier of a random shape: single letter, _x, X, x1, x_y, CamelCase ..."""
    while True:
        style_ = style or rng.choice(['single', 'under', 'camel', 'digit', 'snake', 'long'])
        if style_ == 'single':
            s = rng.choice(HEADS.replace('_', ''))
        elif style_ == 'under':
            s = '_' + rng.choice('abcxyz') + rng.choice(['', rng.choice(TAILS)])
        elif style_ == 'camel':
            s = rng.choice('ABCDEFGHKMNPQSTUVWXYZ') + ''.join(
                rng.choice('abcdefghijklmnopqrstuvwxyz') for _ in range(rng.randrange(1, 6)))
        elif style_ == 'digit':
            s = rng.choice('abcdefghkmnpqstuvwxyz') + str(rng.randrange(0, 100))
        elif style_ == 'snake':
            s = rng.choice('abcdefghkmnpqstuvwxyz') + '_' + rng.choice('abcxyz0189')
        else:
            s = rng.choice(HEADS) + ''.join(rng.choice(TAILS) for _ in range(rng.randrange(2, 9)))
        if s in CPP_KEYWORDS or s in RESERVED or s.startswith('__') or '__' in s:
            continue
        if s.startswith('_') and len(s) > 1 and s[1].isupper():
            continue  # reserved for the C++ implementation
        if s == '_':
            continue
        return s


def fresh(rng: random.Random, taken: set, style: Optional[str] = None,
          casefold_first: bool = False) -> str:
    """An identifier not in `taken` (optionally: not equal modulo case of the first letter)."""
    for _ in range(1000):
        s = ident(rng, style)
        key = (s[0].upper() + s[1:]) if casefold_first else s
        if key not in taken:
            taken.add(key)
            return s
    raise RuntimeError('identifier pool exhausted')


@dataclass
class GenOpts:
    max_ns_depth: int = 3
    max_ns_children: int = 2
    multi_id_ns: float = 0.2        # probability that a namespace name has 2 identifiers
    reopen_ns: float = 0.2          # probability that a namespace is split in two pieces
    reuse_names: float = 0.3        # probability to reuse a simple name already used elsewhere
    n_externs: Tuple[int, int] = (1, 4)
    n_enums: Tuple[int, int] = (1, 3)
    n_interfaces: Tuple[int, int] = (1, 4)
    n_events: Tuple[int, int] = (0, 5)
    n_formals: Tuple[int, int] = (0, 4)
    n_components: Tuple[int, int] = (1, 2)
    n_systems: Tuple[int, int] = (0, 1)
    n_provides: Tuple[int, int] = (0, 3)
    n_requires: Tuple[int, int] = (0, 3)
    n_injected: Tuple[int, int] = (0, 1)
    n_foreigns: Tuple[int, int] = (0, 1)
    n_subints: Tuple[int, int] = (0, 2)
    noise: float = 0.0              # unknown element classes / non-dict elements / imports
    reply_kinds: Tuple[str, ...] = ('void', 'bool', 'enum', 'subint')
    global_component: float = 0.15  # probability that a component sits in the global namespace
    want_multiclient: bool = False  # force one interface suitable as multi-client port
    nested_enum: float = 0.5
    multi_id_names: float = 0.0     # declaration names with 2 identifiers (parser only)
    name_families: float = 0.15     # names that extend/truncate existing names textually
    mc_decoys: str = 'random'       # random | both | literal: decoy events called Claim/Release
    mc_shape: Optional[int] = None  # parameter directions of the claim/release events (cycled)
    many: float = 0.04              # probability of a two-digit count (events, formals, ports)
    ref_externs: float = 0.25       # externs whose C++ type is a reference (in-parameters only)
    mc_enum_family: bool = False    # the claim enum holds X next to an earlier NotX; X grants
    mc_no_outs: bool = False        # the multi-client interface has in-events only
    big: bool = False               # sizes beyond the usual: counts of ten and more, long names
    chain_depth: int = 0            # first a chain of that many nested namespaces (17, 33, 65 ...)


@dataclass
class NsNode:
    """Skeleton node: a namespace fqn and the IR pieces (1 or 2 when re-opened) that render it."""
    fqn: List[str]
    pieces: List[M.Namespace]
    children: List['NsNode'] = field(default_factory=list)
    taken: set = field(default_factory=set)    # names in this scope (C++ uniqueness)


class ModelGen:
    """Generates one model; keeps side tables the checks use as ground truth."""

    def __init__(self, rng: random.Random, opts: Optional[GenOpts] = None):
        self.rng = rng
        self.o = opts or GenOpts()
        LONG['p'] = 0.5 if self.o.big else 0.0
        self.model = M.Model(working_dir=rng.choice(['/work', 'C:', '/home/u/prj']))
        self.root = NsNode([], [M.Namespace([], self.model.elements)])
        self.root.pieces[0].elements = self.model.elements
        self.nodes: List[NsNode] = [self.root]
        self.simple_names: List[str] = []
        self.externs: List[Tuple[List[str], M.Extern]] = []
        self.enums: List[Tuple[List[str], M.Enum]] = []
        self.subints: List[Tuple[List[str], M.SubInt]] = []
        self.interfaces: List[Tuple[List[str], M.Interface, NsNode]] = []
        self.components: List[Tuple[List[str], Any, NsNode]] = []
        self.extern_counter = 0
        self.mc_interfaces: List[Any] = []

    # -- helpers ------------------------------------------------------------------------------
    def _rint(self, lohi: Tuple[int, int], many: Optional[Tuple[int, int]] = None) -> int:
        """A count in lohi; now and then (GenOpts.many) a count from `many` - more than nine of
        something is a size class of its own (textual order of numbered names, single-digit
        assumptions)."""
        if many is not None and self.o.big:
            return self.rng.randint(many[0], many[1])
        if many is not None and self.o.many and self.rng.random() < self.o.many:
            return self.rng.randint(many[0], many[1])
        return self.rng.randint(lohi[0], lohi[1])

    def _name(self, node: NsNode, style: Optional[str] = None) -> str:
        rng = self.rng
        if self.simple_names and rng.random() < self.o.reuse_names:
            cand = rng.choice(self.simple_names)
            if cand not in node.taken:
                node.taken.add(cand)
                return cand
        if self.simple_names and rng.random() < self.o.name_families:
            # a name that textually extends or truncates an existing one (Hal / HalSim, Dev /
            # Device): lookups that compare joined strings instead of identifiers confuse them
            base = rng.choice(self.simple_names)
            cand = rng.choice([base + rng.choice(['x', 'Sim', '2', '_a', 'ice']),
                               base[:max(1, len(base) - rng.randint(1, 2))]])
            if rng.random() < 0.3:
                # ... or that reads like a qualified name with the dots left out (Hal.Motor /
                # HalMotor): keys glued together without a separator confuse those
                paths = [f for _k, f, _o in self.decls() if len(f) >= 2]
                if paths:
                    path = rng.choice(paths)
                    cand = ''.join(path[-2:])
            if cand not in node.taken and cand not in CPP_KEYWORDS and cand not in RESERVED \
                    and '__' not in cand and cand != '_' and \
                    not (cand.startswith('_') and len(cand) > 1 and cand[1].isupper()):
                node.taken.add(cand)
                self.simple_names.append(cand)
                return cand
        s = fresh(rng, node.taken, style)
        self.simple_names.append(s)
        return s

    def _place(self, node: NsNode, element: Any):
        piece = self.rng.choice(node.pieces)
        piece.elements.insert(self.rng.randint(0, len(piece.elements)), element)

    def _pick_node(self, allow_root: bool = True) -> NsNode:
        nodes = self.nodes if allow_root else self.nodes[1:] or self.nodes
        return self.rng.choice(nodes)

    # -- skeleton -----------------------------------------------------------------------------
    def build_skeleton(self):
        rng, o = self.rng, self.o

        def grow(parent: NsNode, depth: int):
            if depth >= o.max_ns_depth:
                return
            for _ in range(rng.randint(0 if depth else 1, o.max_ns_children)):
                ids = [self._name(parent, rng.choice(['camel', 'single', 'snake', 'digit']))]
                fqn = parent.fqn + ids
                inner_parent_taken = set()
                if rng.random() < o.multi_id_ns and depth + 2 <= o.max_ns_depth + 1:
                    second = fresh(rng, inner_parent_taken, 'camel')
                    ids = ids + [second]
                    fqn = parent.fqn + ids
                pieces = [M.Namespace(list(ids), [])]
                if rng.random() < o.reopen_ns:
                    pieces.append(M.Namespace(list(ids), []))
                node = NsNode(fqn, pieces)
                for piece in pieces:
                    ppiece = rng.choice(parent.pieces)
                    ppiece.elements.insert(rng.randint(0, len(ppiece.elements)), piece)
                parent.children.append(node)
                self.nodes.append(node)
                grow(node, depth + len(ids))

        grow(self.root, 0)
        if o.chain_depth:
            # a chain of nested namespaces far deeper than anything `grow` makes; the deepest
            # nodes are listed several times so that declarations land there
            parent = self.root
            chain = []
            for _ in range(o.chain_depth):
                ids = [self._name(parent, rng.choice(['camel', 'single', 'snake', 'digit']))]
                piece = M.Namespace(list(ids), [])
                node = NsNode(parent.fqn + ids, [piece])
                rng.choice(parent.pieces).elements.append(piece)
                parent.children.append(node)
                chain.append(node)
                parent = node
            self.nodes.extend(chain)
            self.nodes.extend(chain[-2:] * 4)

    # -- declarations -------------------------------------------------------------------------
    def add_extern(self, node: Optional[NsNode] = None) -> Tuple[List[str], M.Extern]:
        node = node or self._pick_node()
        name = self._name(node)
        # `extern Text $const std::string&$`: legal for parameters that are only ever passed in
        as_ref = bool(self.externs) and self.rng.random() < self.o.ref_externs
        data = f'const ::vx::T{self.extern_counter}&' if as_ref else f'::vx::T{self.extern_counter}'
        if self.rng.random() < 0.2:
            # `extern T $ unsigned long $;` - white space inside the dollars is part of the data
            data = self.rng.choice([' ', '  ', '\t', '\n', '\n    ']) + data + \
                self.rng.choice([' ', '', '\n', '  '])
        x = M.Extern([name], data)
        self.extern_counter += 1
        self._place(node, x)
        ent = (node.fqn + [name], x)
        self.externs.append(ent)
        return ent

    def _enum_fields(self, owner: str = '') -> List[str]:
        # an enumerator may not be named like the struct that wraps the enum in C++
        taken: set = {owner, 'type'}
        fields = [fresh(self.rng, taken, self.rng.choice(['camel', 'single', 'digit']))
                  for _ in range(self.rng.randint(1, 4))]
        if self.rng.random() < 0.4:
            # enumerators that contain one another (NotOk / Ok, OK / OKAY): one that merely ends
            # or starts with another is another value, wherever it stands in the list
            base = self.rng.choice(fields)
            for relative in (self.rng.choice(['Not', 'N', 'Un']) + base,
                             base + self.rng.choice(['AY', '2', '_x'])):
                if relative not in taken and relative not in CPP_KEYWORDS and \
                        self.rng.random() < 0.7:
                    taken.add(relative)
                    fields.insert(self.rng.randint(0, len(fields)), relative)
        return fields

    def add_enum(self, node: Optional[NsNode] = None) -> Tuple[List[str], M.Enum]:
        node = node or self._pick_node()
        name = self._name(node, 'camel')
        e = M.Enum([name], self._enum_fields(name))
        self._place(node, e)
        ent = (node.fqn + [name], e)
        self.enums.append(ent)
        return ent

    def add_subint(self, node: Optional[NsNode] = None) -> Tuple[List[str], M.SubInt]:
        node = node or self._pick_node()
        name = self._name(node, 'camel')
        lo = self.rng.randint(-5, 5)
        s = M.SubInt([name], lo, lo + self.rng.randint(0, 9))
        self._place(node, s)
        ent = (node.fqn + [name], s)
        self.subints.append(ent)
        return ent

    def add_interface(self, node: Optional[NsNode] = None) -> Tuple[List[str], M.Interface, NsNode]:
        rng, o = self.rng, self.o
        node = node or self._pick_node()
        name = self._name(node, 'camel')
        itf = M.Interface([name])
        fqn = node.fqn + [name]
        inner_taken: set = {name}   # a member type may not be named like its class in C++
        if rng.random() < o.nested_enum:
            for _ in range(rng.randint(1, 2)):
                en = fresh(rng, inner_taken, 'camel')
                # reuse a namespace-level enum's simple name now and then
                pool = self.enums + self.externs
                if pool and rng.random() < max(o.reuse_names, 0.25):
                    cand = rng.choice(pool)[0][-1]
                    if cand not in inner_taken:
                        inner_taken.add(cand)
                        en = cand
                e = M.Enum([en], self._enum_fields(en))
                itf.types.append(e)
                self.enums.append((fqn + [en], e))
        if rng.random() < 0.2:
            sn = fresh(rng, inner_taken, 'camel')
            slo = rng.choice([0, 0, 1, -3])
            s = M.SubInt([sn], slo, slo + rng.randint(0, 9))
            itf.types.append(s)
            self.subints.append((fqn + [sn], s))
        self._place(node, itf)
        ent = (fqn, itf, node)
        self.interfaces.append(ent)
        return ent

    def add_mc_interface(self, node: Optional[NsNode] = None, decoys: bool = True):
        """An interface usable as multi-client port: an in-event replying an enum (claim), a
        void in-event (release), both of arbitrary names and formals, optional decoy events
        literally called Claim/Release, further in- and out-events.  Returns
        (entry, {'claim','release','enum_fqn','fields'})."""
        rng = self.rng
        node = node or self._pick_node()
        name = self._name(node, 'camel')
        itf = M.Interface([name])
        fqn = node.fqn + [name]
        nested = rng.random() < 0.5 or self.o.mc_enum_family
        if self.o.mc_shape is not None and not self.o.mc_enum_family:
            # where the claim enum lives is cycled, not drawn: inside the interface, or outside
            # it (at namespace level, shared with other interfaces)
            nested = self.o.mc_shape % 2 == 0
            if not nested and not [e for e in self.enums if self._enum_visible(e[0], fqn)]:
                self.add_enum(node)
        prefer_reply = None
        if nested or not [e for e in self.enums if self._enum_visible(e[0], fqn)]:
            en = fresh(rng, {name}, 'camel')
            enum = M.Enum([en], self._enum_fields(en) + [fresh(rng, {en}, 'camel') + 'Z'])
            enum.fields = list(dict.fromkeys(enum.fields))
            if self.o.mc_enum_family:
                base = enum.fields[-1]
                enum.fields = [f for f in enum.fields if f != 'Not' + base]
                enum.fields.insert(rng.randint(0, len(enum.fields) - 1), 'Not' + base)
                prefer_reply = base
            itf.types.append(enum)
            enum_fqn = fqn + [en]
            self.enums.append((enum_fqn, enum))
        else:
            enum_fqn, enum = rng.choice([e for e in self.enums if self._enum_visible(e[0], fqn)])
        self._place(node, itf)
        ent = (fqn, itf, node)
        self.interfaces.append(ent)
        taken = {t.name[0] for t in itf.types if not isinstance(t, M.Unknown)}
        literal = rng.random() < 0.3
        if self.o.mc_decoys in ('both', 'literal'):
            literal = self.o.mc_decoys == 'literal'
        claim = 'Claim' if literal else fresh(rng, taken, rng.choice(['camel', 'snake', 'digit']))
        release = 'Release' if literal else fresh(rng, taken, rng.choice(['camel', 'snake', 'digit']))
        taken.update([claim, release])

        def formals(direction):
            out, ftaken = [], set()
            for _ in range(0 if rng.random() < 0.5 else rng.randint(0, 3)):
                if not self.externs:
                    break
                xt, _x = rng.choice(self.externs)
                ref = self._ref(fqn, xt, 'externs')
                if ref is None:
                    continue
                fdir = 'in' if direction == 'out' or _x.data.strip().endswith('&') else \
                    rng.choice(['in', 'out', 'inout'])
                out.append(M.Formal(fresh(rng, ftaken, rng.choice(['single', 'snake', 'digit'])),
                                    ref, fdir))
            return out

        reply = self._ref(fqn, enum_fqn, 'enums')
        if reply is None:
            reply = M.Ref(list(enum_fqn), '.'.join(enum_fqn))

        def planned(directions):
            out, ftaken = [], set()
            for fdir in directions:
                if not self.externs:
                    break
                xt, _x = rng.choice([e for e in self.externs
                                     if fdir == 'in' or not e[1].data.strip().endswith('&')])
                ref = self._ref(fqn, xt, 'externs')
                if ref is not None:
                    out.append(M.Formal(fresh(rng, ftaken, rng.choice(['single', 'snake', 'digit'])),
                                        ref, fdir))
            return out

        plans = [(['in'], ['in']), (['inout'], ['out']), (['out', 'in'], ['in', 'inout']),
                 ([], []), (['in', 'out', 'inout'], ['in', 'in']), None]
        plan = plans[self.o.mc_shape % len(plans)] if self.o.mc_shape is not None else None
        events = [M.Event(claim, 'in', reply, planned(plan[0]) if plan else formals('in')),
                  M.Event(release, 'in', M.Ref(['void']), planned(plan[1]) if plan else formals('in'))]
        minimal = self.o.mc_shape is not None and self.o.mc_shape % 3 == 2
        if decoys and not literal and not minimal:
            if rng.random() < 0.5 or self.o.mc_decoys == 'both':
                events.append(M.Event('Claim', 'in', M.Ref(list(reply.ids), reply.target),
                                      formals('in')))
                taken.add('Claim')
            if rng.random() < 0.5 or self.o.mc_decoys == 'both':
                events.append(M.Event('Release', 'in', M.Ref(['void']), formals('in')))
                taken.add('Release')
        sub_replies = []
        if rng.random() < 0.5:
            sn = fresh(rng, taken | {name}, 'camel')
            slo = rng.choice([0, 0, 1, -3])
            sub = M.SubInt([sn], slo, slo + rng.randint(0, 9))
            itf.types.append(sub)
            self.subints.append((fqn + [sn], sub))
            taken.add(sn)
        for sfqn, _sub in self.subints:
            if self._enum_visible(sfqn, fqn):
                ref = self._ref(fqn, sfqn, 'subints')
                if ref is not None:
                    sub_replies.append(ref)
        for _ in range(0 if minimal else rng.randint(0, 3)):
            choices = [M.Ref(['void']), M.Ref(['bool']), M.Ref(list(reply.ids), reply.target)]
            if sub_replies:
                pick = rng.choice(sub_replies)
                choices.append(M.Ref(list(pick.ids), pick.target))
            events.append(M.Event(fresh(rng, taken, rng.choice(['camel', 'snake', 'single'])), 'in',
                                  rng.choice(choices), formals('in')))
        for _ in range(0 if self.o.mc_no_outs else rng.randint(2, 4)):
            events.append(M.Event(fresh(rng, taken, rng.choice(['camel', 'snake', 'single'])), 'out',
                                  M.Ref(['void']), formals('out')))
        rng.shuffle(events)
        itf.events = events
        info = {'claim': claim, 'release': release, 'enum_fqn': list(enum_fqn),
                'fields': list(enum.fields), 'itf_fqn': list(fqn), 'prefer_reply': prefer_reply}
        self.mc_interfaces.append((ent, info))
        return ent, info

    def decls(self):
        return M.declared_names(self.model)

    def add_padding(self, count: int):
        """`count` more declarations in a namespace of their own that nothing refers to: the
        model of a large project (hundreds of declarations) around the part under test."""
        piece = M.Namespace(['QZPadding'], [])
        node = NsNode(['QZPadding'], [piece])
        self.root.pieces[0].elements.append(piece)
        self.root.children.append(node)
        for k in range(count):
            s = M.SubInt([f'QZs{k}'], k, k + 1)
            piece.elements.append(s)
            self.subints.append((['QZPadding', f'QZs{k}'], s))

    def _ref(self, scope: List[str], target: List[str], kind: str) -> Optional[M.Ref]:
        sp = M.valid_spellings(self.decls(), scope, target, kind)
        if not sp:
            return None
        return M.Ref(self.rng.choice(sp), '.'.join(target))

    def fill_events(self, ent, n_events: Optional[int] = None):
        """Give an interface its events; all references resolvable and unambiguous."""
        rng, o = self.rng, self.o
        fqn, itf, _node = ent
        taken: set = {t.name[0] for t in itf.types if not isinstance(t, M.Unknown)}
        n = self._rint(o.n_events, (10, 13)) if n_events is None else n_events
        # a third of the interfaces is one-directional: commands only, or notifications only
        profile = rng.choice(['mixed', 'mixed', 'mixed', 'mixed', 'in-only', 'out-only'])
        for _ in range(n):
            direction = {'in-only': 'in', 'out-only': 'out'}.get(profile) or \
                rng.choice(['in', 'in', 'out'])
            ename = fresh(rng, taken, rng.choice(['camel', 'single', 'snake', 'digit', 'under']))
            formals = []
            ftaken: set = set()
            for _f in range(0 if rng.random() < 0.35 else self._rint(o.n_formals, (4, 7) if o.big else (10, 12))):
                if not self.externs:
                    break
                xt, _x = rng.choice(self.externs)
                ref = self._ref(fqn, xt, 'externs')
                if ref is None:
                    continue
                fdir = 'in' if direction == 'out' or _x.data.strip().endswith('&') else \
                    rng.choice(['in', 'out', 'inout'])
                formals.append(M.Formal(fresh(rng, ftaken, rng.choice(
                    ['single', 'snake', 'digit', 'camel', 'under'])), ref, fdir))
            reply = M.Ref(['void'])
            if direction == 'in':
                kind = rng.choice(o.reply_kinds)
                if kind == 'bool':
                    reply = M.Ref(['bool'])
                elif kind == 'enum' and self.enums:
                    et, _e = rng.choice(self.enums)
                    # a nested enum is only visible from its own interface
                    if self._enum_visible(et, fqn):
                        reply = self._ref(fqn, et, 'enums') or reply
                elif kind == 'subint' and self.subints:
                    st, _s = rng.choice(self.subints)
                    if self._enum_visible(st, fqn):
                        reply = self._ref(fqn, st, 'subints') or reply
            itf.events.append(M.Event(ename, direction, reply, formals))

    def _enum_visible(self, type_fqn: List[str], itf_fqn: List[str]) -> bool:
        """Namespace-level types are usable anywhere, nested ones in their own interface only."""
        owner = type_fqn[:-1]
        is_nested = any(i[0] == owner for i in self.interfaces)
        return (not is_nested) or owner == itf_fqn

    def add_component(self, kind: str = 'component', node: Optional[NsNode] = None,
                      n_provides: Optional[int] = None, n_requires: Optional[int] = None,
                      n_injected: Optional[int] = None):
        rng, o = self.rng, self.o
        if node is None:
            node = self.root if rng.random() < o.global_component else self._pick_node(False)
        name = self._name(node, 'camel')
        ports: List[M.Port] = []
        # C++: a data member may not be named like its class (mock component struct)
        ptaken: set = {name[0].upper() + name[1:], name[0].lower() + name[1:]}
        wide = (5, 7) if (o.many and rng.random() < o.many) else None
        draw = (lambda lohi: rng.randint(*wide)) if wide else self._rint
        if o.big and n_provides is None and n_requires is None:
            # more than ten ports on one side (a second digit in every count and index)
            if rng.random() < 0.5:
                n_provides, n_requires = rng.randint(10, 12), rng.randint(1, 3)
            else:
                n_provides, n_requires = rng.randint(1, 3), rng.randint(10, 12)
        spec = [('provides', False, draw(o.n_provides) if n_provides is None else n_provides),
                ('requires', False, draw(o.n_requires) if n_requires is None else n_requires),
                ('requires', True, self._rint(o.n_injected) if n_injected is None else n_injected)]
        for direction, injected, count in spec:
            for _ in range(count):
                if not self.interfaces:
                    break
                it_fqn, _itf, _n = rng.choice(self.interfaces)
                ref = self._ref(node.fqn, it_fqn, 'interfaces')
                if ref is None:
                    continue
                pname = fresh(rng, ptaken, rng.choice(['single', 'snake', 'digit', 'camel',
                                                       'under', 'long']), casefold_first=True)
                ports.append(M.Port(pname, ref, direction, injected))
        rng.shuffle(ports)
        if kind == 'component':
            comp = M.Component([name], ports)
        elif kind == 'foreign':
            comp = M.Foreign([name], ports)
        else:
            comp = M.System([name], ports)
            itaken: set = set()
            for _ in range(rng.randint(1, 3)):
                if self.components:
                    cf, _c, _n = rng.choice(self.components)
                    comp.instances.append(M.Instance(fresh(rng, itaken, 'snake'),
                                                     M.Ref(list(cf), '.'.join(cf))))
            if rng.random() < 0.25:
                # a pass-through system: no instances, its own ports bound to each other
                comp.instances = []
            for p in ports:
                if comp.instances:
                    inst = rng.choice(comp.instances)
                    comp.bindings.append(M.Binding((p.name, None), (p.name, inst.name)))
                elif len(ports) >= 2:
                    other = rng.choice([q for q in ports if q is not p])
                    comp.bindings.append(M.Binding((p.name, None), (other.name, None)))
        self._place(node, comp)
        ent = (node.fqn + [name], comp, node)
        if kind != 'foreign':
            self.components.append(ent)
        return ent

    def add_twins(self, ent, same_names: bool = False) -> bool:
        """A name relation: two namespaces that are not nested in each other declare an extern
        of the same simple name (different C++ types), an interface in each refers to its own
        by that simple name (in an in-event and in an out-event), and the component `ent` gets
        a provides port of the one and a requires port of the other.  False if the skeleton
        has no two such namespaces."""
        rng = self.rng
        fqn, comp, cnode = ent
        nodes = [n for n in self.nodes if n.fqn]
        pairs = [(a, b) for a in nodes for b in nodes if a is not b
                 and a.fqn != b.fqn[:len(a.fqn)] and b.fqn != a.fqn[:len(b.fqn)]]
        if not pairs:
            return False
        first, second = rng.choice(pairs)
        used = {f[-1] for _k, f, _o in self.decls()}
        xname = fresh(rng, used, 'camel')
        # with `same_names` the two interfaces carry one simple name as well, and so do their
        # events: everything keyed by a simple name instead of the qualified one confuses them
        iname = fresh(rng, used | {xname}, 'camel') if same_names else None
        ev_in, ev_out = fresh(rng, set(), 'camel'), fresh(rng, {xname}, 'camel')
        if same_names and (iname in first.taken or iname in second.taken or ev_in == ev_out):
            return False
        made = []
        for node in (first, second):
            if xname in node.taken:
                return False
            node.taken.add(xname)
            ext = M.Extern([xname], f'::vx::T{self.extern_counter}')
            self.extern_counter += 1
            self._place(node, ext)
            self.externs.append((node.fqn + [xname], ext))
            if same_names:
                node.taken.add(iname)
                itf = M.Interface([iname])
                self._place(node, itf)
                ient = (node.fqn + [iname], itf, node)
                self.interfaces.append(ient)
            else:
                ient = self.add_interface(node)
            ifqn, itf, _n = ient
            taken = {t.name[0] for t in itf.types if not isinstance(t, M.Unknown)}
            target = '.'.join(node.fqn + [xname])
            itf.events.append(M.Event(ev_in if same_names else fresh(rng, taken, 'camel'), 'in',
                                      M.Ref(['void']),
                                      [M.Formal('qz_a', M.Ref([xname], target), 'in')]))
            itf.events.append(M.Event(ev_out if same_names else fresh(rng, taken, 'camel'), 'out',
                                      M.Ref(['void']),
                                      [M.Formal('qz_b', M.Ref([xname], target), 'in')]))
            made.append(ient)
        ptaken = {p.name[0].upper() + p.name[1:] for p in comp.ports} | \
            {p.name[0].lower() + p.name[1:] for p in comp.ports} | \
            {fqn[-1][0].upper() + fqn[-1][1:], fqn[-1][0].lower() + fqn[-1][1:]}
        directions = ('provides', 'requires')
        if same_names:
            # the same event is rerouted on both ports: both on one side
            directions = rng.choice([('provides', 'provides'), ('requires', 'requires')])
        for (ifqn, _itf, _n), direction in zip(made, directions):
            ref = self._ref(cnode.fqn, ifqn, 'interfaces')
            if ref is None:
                return False
            pname = fresh(rng, ptaken, 'snake', casefold_first=True)
            comp.ports.append(M.Port(pname, ref, direction))
        return True

    def add_noise(self):
        rng = self.rng
        for _ in range(rng.randint(1, 5)):
            node = self._pick_node()
            what = rng.choice(['import', 'filename', 'unknown', 'nondict', 'unknown_type'])
            if what == 'import':
                self._place(self.root, M.Import(ident(rng) + '.dzn'))
            elif what == 'filename':
                self._place(self.root, M.FileName('./' + ident(rng) + '.dzn'))
            elif what == 'unknown':
                self._place(node, M.Unknown({'<class>': rng.choice(
                    ['bogus', 'function', 'behavior', 'data', 'comment', 'Component', '']),
                    'name': {'<class>': 'scope_name', 'ids': [ident(rng)]}}))
            elif what == 'nondict':
                self._place(node, M.Unknown(rng.choice([None, 1, 'text', [], [1, 2], True, 2.5])))
            elif self.interfaces:
                _f, itf, _n = rng.choice(self.interfaces)
                itf.types.insert(rng.randint(0, len(itf.types)), M.Unknown(
                    {'<class>': rng.choice(['extern', 'bool', 'int', 'bogus']),
                     'name': {'<class>': 'scope_name', 'ids': [ident(rng)]}}))

    def respell_all(self) -> bool:
        """Re-choose the spelling of every reference against the final declaration set (later
        additions may have made an earlier spelling ambiguous).  False if some reference has
        no unambiguous spelling at all."""
        decls = self.decls()
        kind_of = {'.'.join(f): k for k, f, _o in decls}
        ok = True

        def fix(ref: M.Ref, scope: List[str]):
            nonlocal ok
            if ref.target is None:
                return
            target = ref.target.split('.')
            kind = kind_of.get(ref.target)
            sp = M.valid_spellings(decls, scope, target, kind) if kind else []
            if not sp:
                ok = False
            elif ref.ids not in sp:
                ref.ids = self.rng.choice(sp)

        for fqn, itf, _node in self.interfaces:
            for ev in itf.events:
                fix(ev.reply, fqn)
                for formal in ev.formals:
                    fix(formal.type, fqn)
        for _fqn, comp, node in self.components:
            for port in comp.ports:
                fix(port.type, node.fqn)
        return ok

    # -- whole model --------------------------------------------------------------------------
    def generate(self) -> 'ModelGen':
        o = self.o
        self.build_skeleton()
        for _ in range(self._rint(o.n_externs)):
            self.add_extern()
        for _ in range(self._rint(o.n_enums)):
            self.add_enum()
        for _ in range(self._rint(o.n_subints)):
            self.add_subint()
        for _ in range(self._rint(o.n_interfaces)):
            self.add_interface()
        for ent in list(self.interfaces):
            self.fill_events(ent)
        if o.want_multiclient:
            self.add_mc_interface()
        for _ in range(self._rint(o.n_foreigns)):
            self.add_component('foreign')
        for _ in range(self._rint(o.n_components)):
            self.add_component('component')
        for _ in range(self._rint(o.n_systems)):
            self.add_component('system')
        if o.noise and self.rng.random() < o.noise:
            self.add_noise()
        self.well_formed = self.respell_all()
        return self

    # -- views --------------------------------------------------------------------------------
    def interface_by_fqn(self, dotted: str) -> M.Interface:
        for fqn, itf, _n in self.interfaces:
            if '.'.join(fqn) == dotted:
                return itf
        raise KeyError(dotted)


def gen_model(rng: random.Random, opts: Optional[GenOpts] = None) -> ModelGen:
    return ModelGen(rng, opts).generate()
