"""Child interpreter of vlib.surroundings.run_chunk:  surr_child.py <job.pickle> <out.pickle>"""
import importlib
import os
import pickle
import sys
import traceback

HERE = os.path.dirname(os.path.dirname(os.path.abspath(__file__)))
sys.path.insert(0, HERE)


def main() -> int:
    with open(sys.argv[1], 'rb') as fh:
        job = pickle.load(fh)
    mod = importlib.import_module(job['module'])
    func = mod
    for part in job['name'].split('.'):
        func = getattr(func, part)
    from vlib import common  # pylint: disable=import-outside-toplevel
    common.import_dznpy()
    if 'cwd' in job['setup']:
        os.makedirs(job['cwd'], exist_ok=True)
        os.chdir(job['cwd'])
    if 'logging' in job['setup']:
        import logging  # pylint: disable=import-outside-toplevel
        logging.basicConfig(level=logging.DEBUG,
                            stream=open(os.devnull, 'w', encoding='utf-8'))  # pylint: disable=consider-using-with
    if 'warnings' in job['setup']:
        import warnings  # pylint: disable=import-outside-toplevel
        warnings.simplefilter('error')
        # resources my own harness leaves to the collector are not the library's warnings
        warnings.simplefilter('ignore', ResourceWarning)
    results = []
    for item in job['items']:
        try:
            results.append(func(item))
        except Exception:  # pylint: disable=broad-except
            results.append({'harness_error': traceback.format_exc()})
    with open(sys.argv[2] + '.tmp', 'wb') as fh:
        pickle.dump(results, fh)
    os.replace(sys.argv[2] + '.tmp', sys.argv[2])
    return 0


if __name__ == '__main__':
    sys.exit(main())
