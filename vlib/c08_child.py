"""Child interpreter of C08/C12: builds the cases of a JSON file and prints digests.

usage: c08_child.py <cases.json> <order_seed|none> <passes>
Prints one JSON object: {"results": [[pass, case_index, outcome], ...], "hashseed": ...}
outcome = {"files": [[name, sha256(contents), hash property, md5 recomputed]]} | {"exc": {...}}
"""
import hashlib
import json
import os
import sys

sys.path.insert(0, os.path.dirname(os.path.dirname(os.path.abspath(__file__))))
from vlib import common, shellbuild  # noqa: E402


def main():
    common.import_dznpy()
    cases = json.load(open(sys.argv[1], encoding='utf-8'))
    order_seed = None if sys.argv[2] == 'none' else int(sys.argv[2])
    passes = int(sys.argv[3])
    only = None if len(sys.argv) < 5 else int(sys.argv[4])
    results = []
    for pas in range(passes):
        for idx, case in enumerate(cases):
            if only is not None and idx != only:
                continue
            try:
                fc = shellbuild.parse_doc(case['doc'])
                files = shellbuild.build_files(case['cfg'], fc, order_seed)
                out = {'files': [[n, hashlib.sha256(c.encode('utf-8')).hexdigest(), h,
                                  hashlib.md5(c.encode('utf-8')).hexdigest()]
                                 for n, c, h in files]}
            except Exception as exc:  # pylint: disable=broad-except
                out = {'exc': common.classify_exception(exc)}
            results.append([pas, idx, out])
    json.dump({'results': results, 'hashseed': os.environ.get('PYTHONHASHSEED')}, sys.stdout)


if __name__ == '__main__':
    main()
