"""Child interpreter of C08/C12: builds the cases of a JSON file and prints digests.

usage: c08_child.py <cases.json> <order_seed|none> <passes>
Prints one JSON object: {"results": [[pass, case_index, outcome], ...], "hashseed": ...}
outcome = {"files": [[name, sha256(contents), hash property, md5 recomputed]]} | {"exc": {...}}
"""
import hashlib
import json
import os
import sys

sys.path.insert(0, os.path.dirname(os.path.dirname(os.path.abspath(__file__))))


def shift_clock(seconds: float):
    """Let this process live at another time: every Python-level way to ask for 'now' answers
    `seconds` later.  A build whose output holds a date or a time stamp then differs from the
    one of a sibling process."""
    import datetime  # pylint: disable=import-outside-toplevel
    import time  # pylint: disable=import-outside-toplevel
    real_time, real_ns = time.time, time.time_ns
    real_local, real_gm, real_strf = time.localtime, time.gmtime, time.strftime
    real_ctime, real_asc = time.ctime, time.asctime
    time.time = lambda: real_time() + seconds
    time.time_ns = lambda: real_ns() + int(seconds * 1e9)
    time.localtime = lambda secs=None: real_local(time.time() if secs is None else secs)
    time.gmtime = lambda secs=None: real_gm(time.time() if secs is None else secs)
    time.strftime = lambda fmt, t=None: real_strf(fmt, time.localtime() if t is None else t)
    time.ctime = lambda secs=None: real_ctime(time.time() if secs is None else secs)
    time.asctime = lambda t=None: real_asc(time.localtime() if t is None else t)
    real_dt, real_date = datetime.datetime, datetime.date

    class ShiftedDateTime(real_dt):
        @classmethod
        def now(cls, tz=None):
            return real_dt.fromtimestamp(time.time(), tz)

        @classmethod
        def utcnow(cls):
            return real_dt.fromtimestamp(time.time(), datetime.timezone.utc).replace(tzinfo=None)

        @classmethod
        def today(cls):
            return real_dt.fromtimestamp(time.time())

    class ShiftedDate(real_date):
        @classmethod
        def today(cls):
            return real_dt.fromtimestamp(time.time()).date()

    datetime.datetime, datetime.date = ShiftedDateTime, ShiftedDate


if os.environ.get('VERIF_CLOCK_SHIFT'):
    shift_clock(float(os.environ['VERIF_CLOCK_SHIFT']))

from vlib import caller, common, shellbuild  # noqa: E402


def parse_from_file(doc):
    """The document written to a file as UTF-8 and loaded with DznJsonAst.load_file."""
    import tempfile  # pylint: disable=import-outside-toplevel
    from dznpy.json_ast import DznJsonAst  # pylint: disable=import-outside-toplevel
    with tempfile.NamedTemporaryFile('w', suffix='.json', delete=False, encoding='utf-8') as fh:
        json.dump(doc, fh, ensure_ascii=False)
    try:
        with common.quiet():
            fc = DznJsonAst().load_file(fh.name).process()
            caller.after_parse(fc)
        return fc
    finally:
        os.unlink(fh.name)


def main():
    common.import_dznpy()
    setup = os.environ.get('VERIF_CHILD_SETUP', '')
    if 'logging' in setup:
        import logging  # pylint: disable=import-outside-toplevel
        logging.basicConfig(level=logging.DEBUG, stream=open(os.devnull, 'w', encoding='utf-8'))  # pylint: disable=consider-using-with
    if 'warnings' in setup:
        import warnings  # pylint: disable=import-outside-toplevel
        warnings.simplefilter('error')
        warnings.simplefilter('ignore', ResourceWarning)
    cases = json.load(open(sys.argv[1], encoding='utf-8'))
    order_seed = None if sys.argv[2] == 'none' else int(sys.argv[2])
    passes = int(sys.argv[3])
    only = None if len(sys.argv) < 5 else int(sys.argv[4])
    results = []
    # a process may serve all its builds from one Builder object (VERIF_SHARED_BUILDER): the
    # cases differ in model, prefix, suffix and origin, and none of that may stick
    builder = None
    if os.environ.get('VERIF_SHARED_BUILDER'):
        from dznpy.adv_shell import Builder  # pylint: disable=import-outside-toplevel
        builder = Builder()
    shared_cfg = [] if os.environ.get('VERIF_SHARED_CONFIGURATION') else None
    order = list(enumerate(cases))
    if os.environ.get('VERIF_REVERSE_CASES'):
        order.reverse()      # what was built before a case differs from process to process
    for pas in range(passes):
        for idx, case in order:
            if only is not None and idx != only:
                continue
            try:
                fc = parse_from_file(case['doc']) if os.environ.get('VERIF_MODEL_FROM_FILE') \
                    else shellbuild.parse_doc(case['doc'])
                if shared_cfg is not None:
                    # one Configuration object filled in anew for every job of a batch
                    import dataclasses  # pylint: disable=import-outside-toplevel
                    from dznpy.adv_shell import Builder as _B  # pylint: disable=import-outside-toplevel
                    wanted = shellbuild.make_configuration(case['cfg'], fc, order_seed)
                    if not shared_cfg:
                        shared_cfg.append(wanted)
                    for fld in dataclasses.fields(wanted):
                        setattr(shared_cfg[0], fld.name, getattr(wanted, fld.name))
                    with common.quiet():
                        result = (builder or _B()).build(shared_cfg[0])
                    files = [(gc.filename, gc.contents, gc.hash) for gc in result.files]
                else:
                    files = shellbuild.build_files(case['cfg'], fc, order_seed, builder=builder)
                out = {'files': [[n, hashlib.sha256(c.encode('utf-8')).hexdigest(), h,
                                  hashlib.md5(c.encode('utf-8')).hexdigest()]
                                 for n, c, h in files]}
            except Exception as exc:  # pylint: disable=broad-except
                out = {'exc': common.classify_exception(exc)}
            results.append([pas, idx, out])
            regen = int(os.environ.get('VERIF_REGENERATE', '0'))
            if regen and pas == 0 and 'files' in out and idx in (0, len(cases) - 1):
                # a watch loop: the same model built again and again with same-length edits of
                # the copyright text (the year), every result dropped after its hashes were read
                import gc as _gc  # pylint: disable=import-outside-toplevel
                wrong = 0
                for k in range(regen):
                    cfg = dict(case['cfg'], copyright=f'(c) {2000 + k % 50} Acme\n{case["cfg"].get("copyright", "")}')
                    files = shellbuild.build_files(cfg, fc, order_seed, builder=builder)
                    for _n, content, digest in files:
                        if digest != hashlib.md5(content.encode('utf-8')).hexdigest():
                            wrong += 1
                    del files
                    if k % 7 == 0:
                        _gc.collect()
                results.append([pas, idx, {'regenerated': regen, 'wrong_hashes': wrong}])
    json.dump({'results': results, 'hashseed': os.environ.get('PYTHONHASHSEED')}, sys.stdout)


if __name__ == '__main__':
    main()
