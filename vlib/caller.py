"""What a caller does with the things the library hands back (shared by most checks).

A build script does not just read results: it logs them (`repr`, `str`, f-strings), keeps them
for later, and derives new names from the namespace identifiers it is handed with the
library's own public operators - `ids += more` (NamespaceIds.__iadd__ extends in place) being
the one that matters, because it turns every object the library shares with the caller into
shared mutable state.  On the unchanged tree every value used here is a fresh object (a
property that computes its answer, a conversion of a string, a sum, a build result), so what
the caller does with it is the caller's own business and must not influence what the library
answers next.  None of these helpers touch state the library documents as the model itself
(the stored `fqn`, `name` and `parent_ns` of a declaration are left alone).

`after_parse(fc)`, `after_build(result, enc)` and `literals(strings)` are workload steps, not
oracles: they return nothing; the checks' own oracles decide.  COUNTS says how often each
step really ran (a check may require them).
"""
from __future__ import annotations

from typing import Any, Dict, Iterable, List, Optional

COUNTS: Dict[str, int] = {}
MARK = 'QZScribble'


def _count(key: str, by: int = 1):
    COUNTS[key] = COUNTS.get(key, 0) + by


def extend_in_place(ids, with_ids: Optional[List[str]] = None):
    """`ids += <more>` through the public in-place operator."""
    from dznpy.scoping import NamespaceIds  # pylint: disable=import-outside-toplevel
    more = NamespaceIds(list(with_ids) if with_ids else [MARK])
    ids += more
    _count('namespace_ids_extended_in_place')
    return ids


def observe(obj: Any):
    """Log it the way a script does."""
    for how in (repr, str, lambda o: f'{o}'):
        try:
            how(obj)
            _count('objects_stringified')
        except Exception:  # pylint: disable=broad-except
            pass        # an object that cannot be printed is not what the properties are about


DECL_LISTS = ('components', 'systems', 'foreigns', 'interfaces', 'enums', 'subints', 'externs')


def declarations(fc) -> list:
    out = []
    for name in DECL_LISTS:
        out.extend(getattr(fc, name, []) or [])
    return out


def after_parse(fc, observe_too: bool = True):
    """Log the parsed contents, then derive names from every *computed* namespace-identifier
    value of every declaration: the enclosing scope (`parent_ns.fqn`), the sum of scope and
    name, the resolution order of the name from its scope - each extended in place by the
    name of a namespace that really exists below that scope where there is one (a script
    naming a nested namespace), otherwise by a marker."""
    from dznpy.scoping import NamespaceIds, scope_resolution_order  # pylint: disable=import-outside-toplevel
    if observe_too:
        observe(fc)
    decls = declarations(fc)
    fqns = [list(d.fqn.items) for d in decls if getattr(d, 'fqn', None) is not None]
    for decl in decls:
        tree = getattr(decl, 'parent_ns', None)
        if tree is None:
            continue
        try:
            scope = tree.fqn
        except Exception:  # pylint: disable=broad-except
            continue
        here = list(scope.items)
        below = sorted({f[len(here)] for f in fqns
                        if f[:len(here)] == here and len(f) > len(here) + 1})
        # a name that is not already the tail (calling twice must not depend on aliasing)
        pick = [below[len(here) % len(below)]] if below else [MARK]
        name = getattr(getattr(decl, 'name', None), 'value', None)
        if isinstance(name, NamespaceIds):
            total = scope + name
            extend_in_place(total)
            for cand in scope_resolution_order(NamespaceIds(list(name.items)),
                                               NamespaceIds(list(here))):
                extend_in_place(cand)
        extend_in_place(scope, pick)
        _count('declarations_derived_from')


def literal_pool(enc: Optional[dict]) -> List[str]:
    """The strings a script converts with ns_ids_t while preparing this build."""
    pool = ['Dzn', 'ILog', 'Sts', 'Mts']
    if enc:
        ids = [i for i in str(enc.get('encapsulee', '')).split('.') if i]
        for k in range(1, len(ids) + 1):
            pool += ['.'.join(ids[:k]), '::'.join(ids[:k])]
        if enc.get('prefix'):
            pre = list(enc['prefix'])
            pool += ['.'.join(pre), '::'.join(pre), '.'.join(pre + ['Dzn'])]
        mc = enc.get('multiclient')
        if mc:
            pool += ['.'.join(mc['reply']), '::'.join(mc['reply']), mc['port']]
    seen, out = set(), []
    for s in pool:
        if s and s not in seen:
            seen.add(s)
            out.append(s)
    return out


def literals(strings: Iterable[str]):
    """`x = ns_ids_t('<text>'); x += ...` for every text: conversions hand out fresh values."""
    from dznpy.scoping import ns_ids_t  # pylint: disable=import-outside-toplevel
    for text in strings:
        try:
            ids = ns_ids_t(text)
        except Exception:  # pylint: disable=broad-except
            continue
        extend_in_place(ids)
        _count('converted_literals_extended')


def after_build(result, enc: Optional[dict] = None):
    """Log the result, index the generated files by C++ type (`ns = gc.namespace; ns += ...`)
    and derive names from the literals of this build."""
    observe(result)
    for gc in getattr(result, 'files', []) or []:
        ns = getattr(gc, 'namespace', None)
        if ns is not None and hasattr(ns, 'items'):
            extend_in_place(ns, ['ILog'] if len(ns.items) % 2 else None)
            _count('result_namespaces_extended')
    literals(literal_pool(enc))
