"""C++ projections of the IR: the mock of the Dezyne-generated model header (instrumented mock
components) and the harness translation unit that drives a compiled shell from a script."""
from __future__ import annotations

from typing import Any, Dict, List, Optional, Tuple

from . import model as M
from . import shellbuild


def cfqn(dotted_or_ids, root: bool = True) -> str:
    ids = dotted_or_ids.split('.') if isinstance(dotted_or_ids, str) else list(dotted_or_ids)
    return ('::' if root else '') + '::'.join(ids)


class Cxx:
    """Knows the C++ spelling of everything in one generated model."""

    def __init__(self, gen):
        self.gen = gen
        self.decls = gen.decls()
        self.by_fqn = {'.'.join(f): (k, o) for k, f, o in self.decls}
        self.nested_owner = {}
        for fqn, itf, _n in gen.interfaces:
            for t in itf.types:
                if isinstance(t, (M.Enum, M.SubInt)):
                    self.nested_owner['.'.join(fqn + t.name)] = '.'.join(fqn)

    # -- types --------------------------------------------------------------------------------
    def reply_type(self, ref: M.Ref) -> str:
        if ref.target is None:
            return {'void': 'void', 'bool': 'bool', 'int': 'int'}[ref.ids[0]]
        kind, _obj = self.by_fqn[ref.target]
        if kind == 'subints':
            return 'int'
        return cfqn(ref.target) + '::type'

    def reply_info(self, ref: M.Ref) -> Dict[str, Any]:
        """How a scripted reply index maps onto the C++ value."""
        if ref.target is None:
            return {'kind': ref.ids[0], 'n': 2 if ref.ids[0] == 'bool' else 0}
        kind, obj = self.by_fqn[ref.target]
        if kind == 'subints':
            return {'kind': 'subint', 'lo': obj.lo, 'n': obj.hi - obj.lo + 1}
        return {'kind': 'enum', 'n': len(obj.fields), 'fields': list(obj.fields),
                'cpp': cfqn(ref.target)}

    def formal_type(self, formal: M.Formal) -> str:
        _kind, obj = self.by_fqn[formal.type.target]
        return obj.data + ('' if formal.direction == 'in' else '&')

    def value_type(self, formal: M.Formal) -> str:
        """The object type behind a parameter (an extern may be declared as `const T&`)."""
        _kind, obj = self.by_fqn[formal.type.target]
        data = obj.data.strip()
        if data.endswith('&'):
            data = data[:-1].strip()
            if data.startswith('const '):
                data = data[len('const '):]
        return data

    def signature(self, ev: M.Event) -> str:
        args = ', '.join(f'{self.formal_type(f)} {f.name}' for f in ev.formals)
        return f'{self.reply_type(ev.reply)}({args})'


def _ns_open(ids: List[str]) -> str:
    return f'namespace {"::".join(ids)} {{' if ids else ''


def _ns_close(ids: List[str]) -> str:
    return '}' if ids else ''


def _reply_expr(info: Dict[str, Any], var: str, cpp_type: str) -> str:
    if info['kind'] == 'void':
        return ''
    if info['kind'] == 'bool':
        return f'(({var}) % 2) != 0'
    if info['kind'] == 'int':
        return f'static_cast<int>({var})'
    if info['kind'] == 'subint':
        return f'static_cast<int>({info["lo"]} + (({var}) % {info["n"]}))'
    return f'static_cast<{cpp_type}>(({var}) % {info["n"]})'


def _reply_norm(info: Dict[str, Any], var: str) -> str:
    """C++ expression turning a reply value back into the logged long long."""
    if info['kind'] == 'bool':
        return f'(({var}) ? 1LL : 0LL)'
    return f'static_cast<long long>({var})'


def handler_body(cx: Cxx, side: str, port: str, ev: M.Event, extra: str = '') -> str:
    """Body of an instrumented event handler (mock component or user-side recorder)."""
    ins = [f.name for f in ev.formals if f.direction in ('in', 'inout')]
    outs = [f.name for f in ev.formals if f.direction in ('out', 'inout')]
    info = cx.reply_info(ev.reply)
    rtype = cx.reply_type(ev.reply)
    key = f'{side}/{port}/{ev.name}'
    lines = [
        '{ vmon::J j; j.s("side","%s").s("port","%s").s("event","%s").s("dir","%s")%s'
        '.a("args",{%s}).p("pump", vmon::current_pump); vmon::log("arrive", j); }'
        % (side, port, ev.name, ev.direction, extra, ', '.join(f'{n}.id' for n in ins))]
    # a scripted action of the handler itself (a component raising an out-event while it handles
    # an in-event): one-shot, armed by the `nest` operation of the harness
    lines.append(f'vmon::run_nested("{key}");')
    for name in outs:
        lines.append(f'{name}.id = vmon::fresh_id();')
    if info['kind'] == 'void':
        lines.append('long long vr = -1;')
    elif info['kind'] == 'int':
        lines.append(f'long long vr = vmon::next_reply("{key}", vmon::fresh_id() % 1000);')
    elif info['kind'] == 'subint':
        lines.append(f'long long vr = vmon::next_reply("{key}", vmon::fresh_id()) % {info["n"]};')
    else:
        lines.append(f'long long vr = vmon::next_reply("{key}", vmon::fresh_id()) % {info["n"]};')
    logged = 'vr' if info['kind'] != 'subint' else f'({info["lo"]} + vr)'
    lines.append('{ vmon::J j; j.s("side","%s").s("port","%s").s("event","%s")%s.a("outs",{%s})'
                 '.n("reply", %s); vmon::log("arrive_done", j); }'
                 % (side, port, ev.name, extra, ', '.join(f'{n}.id' for n in outs), logged))
    if info['kind'] != 'void':
        lines.append(f'return {_reply_expr(info, "vr", rtype)};')
    return '\n'.join('        ' + ln for ln in lines)


def lambda_params(cx: Cxx, ev: M.Event) -> str:
    return ', '.join(f'{cx.formal_type(f)} {f.name}' for f in ev.formals)


def model_header(gen, basename: str) -> str:
    """The mock of the header `dzn code` would emit for this model, as <basename>.hh."""
    cx = Cxx(gen)
    out: List[str] = [
        f'// mock of the Dezyne-generated header of model "{basename}" (vlib.cxxgen)',
        '#pragma once', '#include <dzn/meta.hh>', '',
        'namespace dzn {', '  struct locator;', '  struct runtime;', '}', '',
        '#include <iostream>', '#include <map>', '#include <functional>', '#include <string>',
        '#include <dzn/locator.hh>', '#include <dzn/runtime.hh>', '#include "vmon.hh"', '',
        '#ifndef VX_TYPES', '#define VX_TYPES', 'namespace vx {']
    # copying a value is a point where a thread may be preempted (C11's schedules use it)
    out += [f'struct T{k} {{ long long id = 0; T{k}() = default; '
            f'T{k}(const T{k}& o) : id(o.id) {{ vmon::yield_point("argument-copied"); }} '
            f'T{k}& operator=(const T{k}&) = default; }};' for k in range(64)]
    out += ['}', '#endif', '']

    def emit_enum(e: M.Enum, indent: str = '') -> List[str]:
        return [f'{indent}struct {e.name[0]} {{ enum type {{ {", ".join(e.fields)} }}; }};']

    # namespace-level enums first
    for fqn, enum in gen.enums:
        if '.'.join(fqn) in cx.nested_owner:
            continue
        ns = fqn[:-1]
        guard = 'ENUM_' + '_'.join(fqn)
        out += [f'#ifndef {guard}', f'#define {guard} 1', _ns_open(ns)] + emit_enum(enum) + \
               [_ns_close(ns), '#endif']
    out.append('')
    # interfaces
    for fqn, itf, _node in gen.interfaces:
        ns, name = fqn[:-1], fqn[-1]
        out.append(_ns_open(ns))
        out.append(f'struct {name}')
        out.append('{')
        out.append('  dzn::port::meta meta;')
        for t in itf.types:
            if isinstance(t, M.Enum):
                out += emit_enum(t, '  ')
        for direction in ('in', 'out'):
            out.append('  struct')
            out.append('  {')
            for ev in itf.events:
                if ev.direction == direction:
                    out.append(f'    std::function<{cx.signature(ev)}> {ev.name};')
            out.append(f'  }} {direction};')
        out.append(f'  inline {name}(const dzn::port::meta& m) : meta(m) {{}}')
        out.append('  void check_bindings() const')
        out.append('  {')
        for ev in itf.events:
            out.append(f'    if (!{ev.direction}.{ev.name}) throw dzn::binding_error(meta, '
                       f'"{ev.direction}.{ev.name}");')
        out.append('  }')
        out.append('};')
        out.append(f'inline void connect({name}& provided, {name}& required)')
        out.append('{')
        out.append('  provided.out = required.out;')
        out.append('  required.in = provided.in;')
        out.append('  provided.meta.require = required.meta.require;')
        out.append('  required.meta.provide = provided.meta.provide;')
        out.append('}')
        out.append(_ns_close(ns))
        out.append('')
    # components and systems (instrumented mocks)
    for fqn, comp, _node in gen.components:
        ns, name = fqn[:-1], fqn[-1]
        dotted = '.'.join(fqn)
        out.append(_ns_open(ns))
        out.append(f'struct {name}')
        out.append('{')
        out.append('  dzn::meta dzn_meta;')
        out.append('  dzn::runtime& dzn_rt;')
        out.append('  dzn::locator const& dzn_locator;')
        for p in comp.ports:
            amp = '&' if p.injected else ''
            out.append(f'  {cfqn(p.type.target)}{amp} {p.name};')
        inits = [f'dzn_meta{{"", "{dotted}", nullptr, {{}}, {{}}, {{}}}}',
                 'dzn_rt(vmon_locator.get<dzn::runtime>())', 'dzn_locator(vmon_locator)']
        for p in comp.ports:
            if p.injected:
                inits.append(f'{p.name}(vmon_locator.get<{cfqn(p.type.target)}>())')
            elif p.direction == 'provides':
                inits.append(f'{p.name}({{{{"{p.name}", &{p.name}, this, &dzn_meta}}, '
                             '{"", nullptr, nullptr, nullptr}})')
            else:
                inits.append(f'{p.name}({{{{"", nullptr, nullptr, nullptr}}, '
                             f'{{"{p.name}", &{p.name}, this, &dzn_meta}}}})')
        out.append(f'  inline {name}(const dzn::locator& vmon_locator)')
        out.append('  : ' + '\n  , '.join(inits))
        out.append('  {')
        out.append(f'    vmon::registry()["{dotted}"] = this;')
        out.append('    {')
        out.append('      vmon::J j; std::string svc = "[";')
        out.append('      bool first = true;')
        out.append('      for (auto& kv : vmon_locator.vmon_services()) { svc += std::string(first ? "" : ",")'
                   ' + "[\\"" + kv.first.first + "\\"," + std::to_string('
                   'reinterpret_cast<unsigned long long>(kv.second)) + "]"; first = false; }')
        out.append('      svc += "]";')
        out.append(f'      j.s("type", "{dotted}").p("self", this).p("locator", &vmon_locator)'
                   '.raw("services", svc);')
        out.append('      vmon::log("component_constructed", j);')
        out.append('    }')
        for p in comp.ports:
            if p.injected:
                continue
            itf = gen.interface_by_fqn(p.type.target)
            for ev in itf.events:
                mine = (p.direction == 'provides' and ev.direction == 'in') or \
                       (p.direction == 'requires' and ev.direction == 'out')
                if not mine:
                    continue
                out.append(f'    {p.name}.{ev.direction}.{ev.name} = [this]({lambda_params(cx, ev)})'
                           f' -> {cx.reply_type(ev.reply)} {{')
                out.append('        (void)this;')
                out.append(handler_body(cx, 'comp', p.name, ev))
                out.append('    };')
            out.append(f'    dzn_meta.ports_connected.push_back([this] {{ {p.name}.check_bindings(); }});')
        out.append('  }')
        out.append('  void check_bindings() const { dzn::check_bindings(&dzn_meta); }')
        out.append('};')
        out.append(_ns_close(ns))
        out.append('')
    return '\n'.join(out) + '\n'


# ---------------------------------------------------------------------------------------------
# harness
# ---------------------------------------------------------------------------------------------

def harness(gen, info: Dict[str, Any], enc: Dict[str, Any], mapping: Dict[str, str],
            static_asserts: bool = True, shell_ns_override: Optional[str] = None,
            shell_class: Optional[str] = None) -> str:
    """main.cc: a translation unit other than the shell's own source that constructs the
    shell, binds recorders on the user side of every exposed port and plays a script."""
    cx = Cxx(gen)
    shell = shellbuild.shell_name(enc)
    scope = info['scope']
    shell_t = (cfqn(scope) + '::' if scope else '::') + (shell_class or shell)
    if shell_ns_override is not None:
        shell_t = shell_ns_override + (shell_class or shell)
    comp_t = cfqn(info['fqn'])
    sf_ns = cfqn((enc.get('prefix') or []) + ['Dzn'])
    mc = enc.get('multiclient')
    create = enc.get('origin', 'create') == 'create'
    o: List[str] = []
    o += ['// generated harness (vlib.cxxgen)', f'#include "{shell}.hh"', '#include "vmon.hh"',
          '#include <fstream>', '#include <memory>', '#include <sstream>', '#include <type_traits>',
          '#include <thread>', '',
          f'using Shell = {shell_t};', f'using Comp = {comp_t};', '',
          'template <typename T, typename = void> struct has_locator : std::false_type {};',
          'template <typename T> struct has_locator<T, std::void_t<decltype('
          'std::declval<T&>().Locator())>> : std::true_type {};', '']
    if static_asserts:
        o.append(f'static_assert(has_locator<Shell>::value == {"true" if create else "false"}, '
                 '"Locator() accessor presence must follow the facilities origin");')
        for pname in info['provides'] + info['requires']:
            p = info['ports'][pname]
            sem = mapping[pname]
            dirn = 'Provides' if p['direction'] == 'provides' else 'Requires'
            wrapper = f'{sf_ns}::{"Sts" if sem == "STS" else "Mts"}<{cfqn(p["itf"])}>'
            if mc and mc['port'] == pname:
                o.append(f'static_assert(std::is_same_v<decltype(std::declval<Shell&>().'
                         f'{dirn}MultiClient{shellbuild.cap(pname)}(std::declval<const '
                         f'{sf_ns}::ClientIdentifier&>())), {wrapper}>, "accessor type");')
            else:
                o.append(f'static_assert(std::is_same_v<decltype(std::declval<Shell&>().'
                         f'{dirn}{shellbuild.cap(pname)}()), {wrapper}>, "accessor type");')
    o += ['',
          'static dzn::meta g_parent{"parent", "Parent", nullptr, {}, {}, {}};',
          'static std::unique_ptr<dzn::locator> g_loc;',
          'static std::unique_ptr<dzn::pump> g_pump;',
          'static std::unique_ptr<dzn::runtime> g_rt;',
          'static int g_extra = 42;',
          'static std::unique_ptr<Shell> g_shell;',
          'static Comp* g_comp = nullptr;',
          'static long long g_stim = 0;',
          'using Args = std::vector<std::string>;',
          'static std::map<std::string, std::function<void(const Args&)>> g_ops;',
          'static std::map<std::string, std::function<void(const std::string&)>> g_bind, g_unbind,'
          ' g_call, g_raise, g_compunbind;',
          '']
    # injected services the component needs
    inj_decl = []
    for pname in info['injected']:
        p = info['ports'][pname]
        inj_decl.append((pname, cfqn(p['itf'])))
        o.append(f'static std::unique_ptr<{cfqn(p["itf"])}> g_inj_{pname};')
    if mc:
        o.append(f'static {sf_ns}::ILog g_log;')
        o.append(f'static std::unique_ptr<{sf_ns}::ILog> g_handed_log;')
    o.append('')
    o.append('static std::string svc_of(const dzn::locator& l) {')
    o.append('  std::string svc = "["; bool first = true;')
    o.append('  for (auto& kv : l.vmon_services()) { svc += std::string(first ? "" : ",") + "[\\"" + '
             'kv.first.first + "\\"," + std::to_string(reinterpret_cast<unsigned long long>(kv.second)) '
             '+ "]"; first = false; }')
    o.append('  return svc + "]";')
    o.append('}')
    o.append('static dzn::pump& the_pump() {')
    if create:
        o.append('  return g_shell->Locator().get<dzn::pump>();')
    else:
        o.append('  return *g_pump;')
    o.append('}')
    o.append('static void quiesce() { if (g_shell) the_pump().vmon_quiesce(); }')
    o.append('')

    def user_port_expr(pname: str, client: str = 'client') -> str:
        p = info['ports'][pname]
        dirn = 'Provides' if p['direction'] == 'provides' else 'Requires'
        if mc and mc['port'] == pname:
            return f'g_shell->{dirn}MultiClient{shellbuild.cap(pname)}({client}).port'
        return f'g_shell->{dirn}{shellbuild.cap(pname)}().port'

    o.append('static void setup_port_ops() {')
    for pname in info['provides'] + info['requires']:
        p = info['ports'][pname]
        itf = gen.interface_by_fqn(p['itf'])
        provides = p['direction'] == 'provides'
        for ev in itf.events:
            key = f'{pname}/{ev.name}'
            params = lambda_params(cx, ev)
            names = ', '.join(f.name for f in ev.formals)
            decl = ' '.join(f'{cx.value_type(f)} {f.name}; {f.name}.id = vmon::fresh_id();'
                            for f in ev.formals)
            ins = ', '.join(f'{f.name}.id' for f in ev.formals if f.direction in ('in', 'inout'))
            outs = ', '.join(f'{f.name}.id' for f in ev.formals if f.direction in ('out', 'inout'))
            rinfo = cx.reply_info(ev.reply)
            user_handles = (provides and ev.direction == 'out') or \
                           (not provides and ev.direction == 'in')
            extra = '.s("client", client)'
            if user_handles:
                # user-side recorder + unbind
                o.append(f'  g_bind["{key}"] = [](const std::string& client) {{')
                o.append(f'    (void)client; auto& port = {user_port_expr(pname)};')
                # every binding gets a generation number: a handler that was replaced later
                # must never be the one that is called
                o.append('    static std::map<std::string, long long> gens; '
                         'const long long gen = ++gens[client];')
                o.append(f'    {{ vmon::J j; j.s("port","{pname}").s("event","{ev.name}")'
                         '.s("client", client).n("gen", gen); vmon::log("bound", j); }')
                o.append(f'    port.{ev.direction}.{ev.name} = [client, gen]({params}) -> '
                         f'{cx.reply_type(ev.reply)} {{')
                o.append('      (void)gen;')
                o.append(handler_body(cx, 'user', pname, ev, extra + '.n("gen", gen)'))
                o.append('    };')
                o.append('  };')
                o.append(f'  g_unbind["{key}"] = [](const std::string& client) {{')
                o.append(f'    (void)client; {user_port_expr(pname)}.{ev.direction}.{ev.name} = nullptr; }};')
                # component raises it
                o.append(f'  g_raise["{key}"] = [](const std::string& how) {{')
                o.append('    auto doit = [] {')
                o.append(f'      long long stim = ++g_stim; {decl}')
                o.append(f'      {{ vmon::J j; j.n("stim", stim).s("side","comp").s("port","{pname}")'
                         f'.s("event","{ev.name}").s("dir","{ev.direction}").a("args",{{{ins}}}); '
                         'vmon::log("call", j); }')
                if rinfo['kind'] == 'void':
                    o.append(f'      g_comp->{pname}.{ev.direction}.{ev.name}({names}); long long vr = -1;')
                else:
                    o.append(f'      auto rr = g_comp->{pname}.{ev.direction}.{ev.name}({names}); '
                             f'long long vr = {_reply_norm(rinfo, "rr")};')
                o.append(f'      {{ vmon::J j; j.n("stim", stim).a("outs",{{{outs}}}).n("reply", vr); '
                         'vmon::log("return", j); }')
                o.append('    };')
                o.append('    if (how == "direct") doit(); else { the_pump()(doit); }')
                o.append('  };')
            else:
                # user calls it; the component handles it
                o.append(f'  g_call["{key}"] = [](const std::string& client) {{')
                o.append(f'    (void)client; auto& port = {user_port_expr(pname)};')
                o.append(f'    long long stim = ++g_stim; {decl}')
                o.append(f'    {{ vmon::J j; j.n("stim", stim).s("side","user").s("port","{pname}")'
                         f'.s("event","{ev.name}").s("dir","{ev.direction}").s("client", client)'
                         f'.a("args",{{{ins}}}); vmon::log("call", j); }}')
                if rinfo['kind'] == 'void':
                    o.append(f'    port.{ev.direction}.{ev.name}({names}); long long vr = -1;')
                else:
                    o.append(f'    auto rr = port.{ev.direction}.{ev.name}({names}); '
                             f'long long vr = {_reply_norm(rinfo, "rr")};')
                o.append(f'    {{ vmon::J j; j.n("stim", stim).a("outs",{{{outs}}}).n("reply", vr); '
                         'vmon::log("return", j); }')
                # clobber the locals: a closure that captured them by reference now dangles
                for f in ev.formals:
                    o.append(f'    {f.name}.id = -777;')
                o.append('  };')
                o.append(f'  g_compunbind["{key}"] = [](const std::string&) {{ '
                         f'g_comp->{pname}.{ev.direction}.{ev.name} = nullptr; }};')
    o.append('}')
    o.append('')
    # addresses
    o.append('static void log_addresses() {')
    o.append('  vmon::J j; j.p("shell", g_shell.get()).n("shell_size", sizeof(Shell)).p("comp", g_comp)'
             '.p("user_locator", g_loc.get()).p("user_pump", g_pump.get()).p("user_runtime", g_rt.get());')
    if create:
        o.append('  j.p("shell_locator", &g_shell->Locator());')
        o.append('  j.p("shell_pump", g_shell->Locator().try_get<dzn::pump>());')
        o.append('  j.p("shell_runtime", g_shell->Locator().try_get<dzn::runtime>());')
    o.append('  j.p("comp_locator", g_comp ? &g_comp->dzn_locator : nullptr);')
    o.append('  j.p("comp_parent", g_comp ? g_comp->dzn_meta.parent : nullptr).p("parent", &g_parent);')
    o.append('  j.s("comp_name", g_comp ? g_comp->dzn_meta.name : "");')
    o.append('  std::string svc = "["; bool first = true;')
    o.append('  for (auto& kv : g_loc->vmon_services()) { svc += std::string(first ? "" : ",") + "[\\"" + '
             'kv.first.first + "\\"," + std::to_string(reinterpret_cast<unsigned long long>(kv.second)) '
             '+ "]"; first = false; }')
    o.append('  svc += "]"; j.raw("user_services", svc);')
    o.append('  vmon::log("addresses", j);')
    for pname in info['provides'] + info['requires']:
        if mc and mc['port'] == pname:
            continue
        o.append(f'  {{ vmon::J k; k.s("port","{pname}").p("accessor", &{user_port_expr(pname)})'
                 f'.p("component", &g_comp->{pname}); vmon::log("port_address", k); }}')
    o.append('}')
    o.append('')
    o.append('int main(int argc, char** argv) {')
    o.append('  if (argc < 3) return 2;')
    o.append('  setup_port_ops();')
    if mc:
        # the logger is user code: it may do something of its own while it is called (`nestop log
        # <operation>` arms that, one-shot) - e.g. call back into the shell
        o.append('  g_log.Info = [](const std::string& m) { vmon::J j; j.s("level","info").s("msg", m); '
                 'vmon::log("ilog", j); vmon::yield_point(m.c_str()); vmon::run_nested("log"); };')
        o.append('  g_log.Warning = [](const std::string& m) { vmon::J j; j.s("level","warning").s("msg", m); '
                 'vmon::log("ilog", j); vmon::run_nested("log"); };')
        o.append('  g_log.Error = [](const std::string& m) { vmon::J j; j.s("level","error").s("msg", m); '
                 'vmon::log("ilog", j); vmon::run_nested("log"); };')
    o.append('  g_ops["construct"] = [](const Args& a) {')
    o.append('    // a[1] = locator shape: letters p (pump), r (runtime), x (extra service)')
    o.append('    const std::string shape = a.size() > 1 ? a[1] : "";')
    o.append('    g_loc.reset(new dzn::locator());')
    o.append('    if (shape.find(\'p\') != std::string::npos) { g_pump.reset(new dzn::pump()); g_loc->set(*g_pump); }')
    o.append('    if (shape.find(\'r\') != std::string::npos) { g_rt.reset(new dzn::runtime()); g_loc->set(*g_rt); }')
    o.append('    if (shape.find(\'x\') != std::string::npos) g_loc->set(g_extra);')
    for pname, ctype in inj_decl:
        o.append(f'    g_inj_{pname}.reset(new {ctype}({{{{"{pname}", nullptr, nullptr, nullptr}}, '
                 '{"", nullptr, nullptr, nullptr}}));')
        o.append(f'    g_loc->set(*g_inj_{pname});')
    o.append('    { vmon::J j; j.s("shape", shape).raw("user_services", svc_of(*g_loc)).p("user_locator", g_loc.get())'
             '.p("user_pump", g_pump.get()).p("user_runtime", g_rt.get()); vmon::log("locator_before", j); }')
    o.append('    try {')
    if mc:
        # the logger is handed over as a copy that its owner re-binds right after construction
        # (the shell keeps what it needs - it does not log through the caller's object)
        o.append(f'      g_handed_log.reset(new {sf_ns}::ILog(g_log));')
    ctor_args = '*g_loc' + (', *g_handed_log' if mc else '') + ', "enc"'
    o.append(f'      g_shell.reset(new Shell({ctor_args}));')
    if mc:
        o.append('      g_handed_log->Info = g_handed_log->Warning = g_handed_log->Error = '
                 '[](const std::string& m) { vmon::J j; j.s("msg", m); vmon::log("ilog_stale", j); };')
    o.append(f'      g_comp = static_cast<Comp*>(vmon::registry()["{info["fqn"]}"]);')
    o.append('      vmon::log("constructed");')
    o.append('    } catch (const std::exception& e) {')
    o.append('      vmon::J j; j.s("what", e.what()); vmon::log("construct_failed", j);')
    o.append('    }')
    o.append('  };')
    o.append('  g_ops["addresses"] = [](const Args&) { log_addresses(); };')
    o.append('  g_ops["bindall"] = [](const Args& a) {')
    o.append('    // a[1] = client (or "-"), a[2] = optional key to skip')
    o.append('    for (auto& kv : g_bind) { if (a.size() > 2 && kv.first == a[2]) continue; '
             'if (!vmon_is_mc(kv.first) == (a[1] == "-")) kv.second(a[1]); }')
    o.append('  };')
    o.append('  g_ops["bind"] = [](const Args& a) { g_bind.at(a[1])(a.size() > 2 ? a[2] : "-"); };')
    o.append('  g_ops["unbind"] = [](const Args& a) { g_unbind.at(a[1])(a.size() > 2 ? a[2] : "-"); };')
    o.append('  g_ops["compunbind"] = [](const Args& a) { g_compunbind.at(a[1])(""); };')
    o.append('  g_ops["call"] = [](const Args& a) { g_call.at(a[1])(a.size() > 2 ? a[2] : "-"); };')
    o.append('  g_ops["raise"] = [](const Args& a) { g_raise.at(a[1])(a.size() > 2 ? a[2] : "pump"); };')
    o.append('  g_ops["nest"] = [](const Args& a) { const std::string in = a[1], out = a[2]; '
             'vmon::set_nested(in, [in, out] { { vmon::J j; j.s("in", in).s("out", out); '
             'vmon::log("nested", j); } g_raise.at(out)("direct"); }); };')
    o.append('  g_ops["nestop"] = [](const Args& a) { const std::string key = a[1]; '
             'Args inner(a.begin() + 2, a.end()); '
             'vmon::set_nested(key, [key, inner] { { vmon::J j; j.s("in", key).s("op", inner[0]); '
             'vmon::log("nested_op", j); } auto it = g_ops.find(inner[0]); '
             'if (it != g_ops.end()) { try { it->second(inner); } catch (const std::exception& e) '
             '{ vmon::J j; j.s("op", inner[0]).s("what", e.what()); vmon::log("nested_op_threw", j); } } }); };')
    o.append('  g_ops["disarm"] = [](const Args& a) { vmon::set_nested(a[1], nullptr); };')
    o.append('  g_ops["reply"] = [](const Args& a) { vmon::push_reply(a[1], std::stoll(a[2])); };')
    o.append('  g_ops["quiesce"] = [](const Args&) { quiesce(); };')
    # the log record must bracket the closed period: logged after closing, before opening
    o.append('  g_ops["gate"] = [](const Args& a) { vmon::J j; j.s("state", a[1]); '
             'if (a[1] == "close") { vmon::gate().close(); vmon::log("gate", j); } else '
             '{ vmon::log("gate", j); vmon::gate().open(); } };')
    o.append('  g_ops["final"] = [](const Args& a) {')
    o.append('    try { if (a.size() > 1 && a[1] == "noparent") g_shell->FinalConstruct(); else '
             'g_shell->FinalConstruct(&g_parent); vmon::log("final_ok"); }')
    o.append('    catch (const dzn::binding_error& e) { vmon::J j; j.s("type","binding_error")'
             '.s("what", e.what()); vmon::log("final_threw", j); }')
    o.append('    catch (const std::exception& e) { vmon::J j; j.s("type","exception").s("what", e.what()); '
             'vmon::log("final_threw", j); }')
    o.append('  };')
    if mc:
        o.append('  g_ops["register"] = [](const Args& a) {')
        o.append(f'    try {{ (void)g_shell->ProvidesMultiClient{shellbuild.cap(mc["port"])}(a[1]); '
                 'vmon::J j; j.s("client", a[1]); vmon::log("registered", j); }')
        o.append('    catch (const std::exception& e) { vmon::J j; j.s("client", a[1]).s("what", e.what()); '
                 'vmon::log("register_failed", j); }')
        o.append('  };')
        o.append('  g_ops["clients"] = [](const Args&) { std::string s; for (auto& c : '
                 f'g_shell->Get{shellbuild.cap(mc["port"])}ClientIdentifiers()) s += c + ","; '
                 'vmon::J j; j.s("ids", s); vmon::log("clients", j); };')
    o.append('  g_ops["destroy"] = [](const Args&) { quiesce(); g_shell.reset(); vmon::log("destroyed"); };')
    o.append('  std::ifstream script(argv[1]);')
    o.append('  std::string line;')
    o.append('  int rc = 0;')
    o.append('  while (std::getline(script, line)) {')
    o.append('    std::istringstream is(line); Args a; std::string w; while (is >> w) a.push_back(w);')
    o.append('    if (a.empty() || a[0][0] == \'#\') continue;')
    o.append('    auto it = g_ops.find(a[0]);')
    o.append('    if (it == g_ops.end()) { vmon::J j; j.s("line", line); vmon::log("unknown_op", j); rc = 3; break; }')
    o.append('    if (!g_shell && a[0] != "construct" && a[0] != "reply" && a[0] != "nest" && a[0] != "nestop" && a[0] != "disarm" && a[0] != "gate" && a[0] != "quiesce") '
             '{ vmon::J j; j.s("line", line); vmon::log("skipped_no_shell", j); continue; }')
    o.append('    try { it->second(a); }')
    o.append('    catch (const std::exception& e) { vmon::J j; j.s("line", line).s("what", e.what()); '
             'vmon::log("op_threw", j); }')
    o.append('  }')
    o.append('  quiesce();')
    o.append('  vmon::log("end");')
    o.append('  vmon::dump(argv[2]);')
    o.append('  g_shell.reset(); g_pump.reset();')
    o.append('  return rc;')
    o.append('}')
    text = '\n'.join(o) + '\n'
    mc_port = mc['port'] if mc else ''
    helper = ('static bool vmon_is_mc(const std::string& key) { '
              f'return !std::string("{mc_port}").empty() && key.rfind(std::string("{mc_port}") + "/", 0) == 0; }}\n')
    return text.replace('using Args = std::vector<std::string>;',
                        'using Args = std::vector<std::string>;\n' + helper, 1)
