"""Independent intermediate representation (IR) of Dezyne models.

Models are *born* here; the JSON document handed to dznpy, the C++ header a Dezyne code
generator would have emitted and every expectation are projections of this IR.  dznpy's own
parser and lookup are never used to compute an expectation.
"""
from __future__ import annotations

import random
from dataclasses import dataclass, field
from typing import Any, Dict, List, Optional, Tuple

# ---------------------------------------------------------------------------------------------
# IR
# ---------------------------------------------------------------------------------------------

BUILTINS = ('void', 'bool', 'int')  # reply types that are no declarations


@dataclass
class Ref:
    """A reference: the spelling written in the model and the declaration that was meant
    (fully qualified, dotted; None for the builtins void/bool)."""
    ids: List[str]
    target: Optional[str] = None


@dataclass
class Formal:
    name: str
    type: Ref
    direction: str  # in | out | inout


@dataclass
class Event:
    name: str
    direction: str  # in | out
    reply: Ref
    formals: List[Formal] = field(default_factory=list)


@dataclass
class Enum:
    name: List[str]
    fields: List[str]


@dataclass
class SubInt:
    name: List[str]
    lo: int
    hi: int


@dataclass
class Extern:
    name: List[str]
    data: str


@dataclass
class Interface:
    name: List[str]
    types: List[Any] = field(default_factory=list)   # Enum | SubInt | Unknown
    events: List[Event] = field(default_factory=list)


@dataclass
class Port:
    name: str
    type: Ref
    direction: str  # provides | requires
    injected: bool = False


@dataclass
class Component:
    name: List[str]
    ports: List[Port] = field(default_factory=list)


@dataclass
class Foreign:
    name: List[str]
    ports: List[Port] = field(default_factory=list)


@dataclass
class Instance:
    name: str
    type: Ref


@dataclass
class Binding:
    left: Tuple[str, Optional[str]]   # (port_name, instance_name or None)
    right: Tuple[str, Optional[str]]


@dataclass
class System:
    name: List[str]
    ports: List[Port] = field(default_factory=list)
    instances: List[Instance] = field(default_factory=list)
    bindings: List[Binding] = field(default_factory=list)


@dataclass
class Namespace:
    name: List[str]
    elements: List[Any] = field(default_factory=list)


@dataclass
class Import:
    name: str


@dataclass
class FileName:
    name: str


@dataclass
class Unknown:
    """An element dznpy does not know: either a dict with an unknown <class> or a non-dict."""
    raw: Any


@dataclass
class Model:
    elements: List[Any] = field(default_factory=list)
    working_dir: str = '/work'
    comment: Optional[str] = None


KIND_OF = {Component: 'components', Enum: 'enums', Extern: 'externs', FileName: 'filenames',
           Foreign: 'foreigns', Import: 'imports', Interface: 'interfaces', SubInt: 'subints',
           System: 'systems'}
KINDS = ['components', 'enums', 'externs', 'filenames', 'foreigns', 'imports', 'interfaces',
         'subints', 'systems']
FINDABLE = ['components', 'enums', 'externs', 'foreigns', 'interfaces', 'subints', 'systems']


# ---------------------------------------------------------------------------------------------
# projection 1: Dezyne JSON AST
# ---------------------------------------------------------------------------------------------

def _scope_name(ids: List[str]) -> dict:
    return {'<class>': 'scope_name', 'ids': list(ids)}


class JsonProjector:
    """Builds the JSON AST with plain dicts.  With `decorate`, adds the irrelevant keys real
    Dezyne emits (locations, expressions, behaviours)."""

    def __init__(self, decorate: bool = False, rng: Optional[random.Random] = None):
        self.decorate = decorate
        self.rng = rng or random.Random(0)

    def _deco(self, dct: dict) -> dict:
        if self.decorate and self.rng.random() < 0.5:
            dct['location'] = {'<class>': 'location', 'file-name': 'x.dzn',
                               'line': self.rng.randrange(1, 999), 'column': 1,
                               'end-line': 1, 'end-column': 2, 'offset': 0, 'length': 1}
        return dct

    def formal(self, f: Formal) -> dict:
        return self._deco({'<class>': 'formal', 'expression': 'undefined', 'name': f.name,
                           'type_name': _scope_name(f.type.ids), 'direction': f.direction})

    def formals(self, fs: List[Formal]) -> dict:
        return {'<class>': 'formals', 'elements': [self.formal(f) for f in fs]}

    def event(self, e: Event) -> dict:
        return self._deco({'<class>': 'event', 'name': e.name,
                           'signature': {'<class>': 'signature',
                                         'type_name': _scope_name(e.reply.ids),
                                         'formals': self.formals(e.formals)},
                           'direction': e.direction})

    def enum(self, e: Enum) -> dict:
        return self._deco({'<class>': 'enum', 'name': _scope_name(e.name),
                           'fields': {'<class>': 'fields', 'elements': list(e.fields)}})

    def subint(self, s: SubInt) -> dict:
        return self._deco({'<class>': 'subint', 'name': _scope_name(s.name),
                           'range': {'<class>': 'range', 'from': s.lo, 'to': s.hi}})

    def extern(self, x: Extern) -> dict:
        return self._deco({'<class>': 'extern', 'name': _scope_name(x.name),
                           'value': {'<class>': 'data', 'value': x.data}})

    def interface(self, i: Interface) -> dict:
        out = {'<class>': 'interface', 'name': _scope_name(i.name),
               'types': {'<class>': 'types', 'elements': [self.element(t) for t in i.types]},
               'events': {'<class>': 'events', 'elements': [self.event(e) for e in i.events]}}
        if self.decorate:
            out['behavior'] = {'<class>': 'behavior', 'name': _scope_name(['behavior']),
                               'types': {'<class>': 'types', 'elements': []},
                               'statement': {'<class>': 'compound', 'elements': []}}
        return self._deco(out)

    def port(self, p: Port) -> dict:
        out = {'<class>': 'port', 'name': p.name, 'type_name': _scope_name(p.type.ids),
               'direction': p.direction, 'formals': self.formals([])}
        if p.injected:
            out['injected?'] = 'injected'
        return self._deco(out)

    def ports(self, ps: List[Port]) -> dict:
        return {'<class>': 'ports', 'elements': [self.port(p) for p in ps]}

    def component(self, c: Component) -> dict:
        out = {'<class>': 'component', 'name': _scope_name(c.name), 'ports': self.ports(c.ports)}
        if self.decorate:
            out['behavior'] = {'<class>': 'behavior', 'statement': {'<class>': 'compound',
                                                                    'elements': []}}
        return self._deco(out)

    def foreign(self, c: Foreign) -> dict:
        return self._deco({'<class>': 'foreign', 'name': _scope_name(c.name),
                           'ports': self.ports(c.ports)})

    @staticmethod
    def endpoint(ep: Tuple[str, Optional[str]]) -> dict:
        out = {'<class>': 'end-point', 'port_name': ep[0]}
        if ep[1] is not None:
            out['instance_name'] = ep[1]
        return out

    def system(self, s: System) -> dict:
        return self._deco({
            '<class>': 'system', 'name': _scope_name(s.name), 'ports': self.ports(s.ports),
            'instances': {'<class>': 'instances',
                          'elements': [{'<class>': 'instance', 'name': i.name,
                                        'type_name': _scope_name(i.type.ids)}
                                       for i in s.instances]},
            'bindings': {'<class>': 'bindings',
                         'elements': [{'<class>': 'binding', 'left': self.endpoint(b.left),
                                       'right': self.endpoint(b.right)} for b in s.bindings]}})

    def namespace(self, n: Namespace) -> dict:
        return self._deco({'<class>': 'namespace', 'name': _scope_name(n.name),
                           'elements': [self.element(e) for e in n.elements]})

    def element(self, e: Any) -> Any:
        if isinstance(e, Unknown):
            return e.raw
        fn = {Enum: self.enum, SubInt: self.subint, Extern: self.extern,
              Interface: self.interface, Component: self.component, Foreign: self.foreign,
              System: self.system, Namespace: self.namespace}.get(type(e))
        if fn:
            return fn(e)
        if isinstance(e, Import):
            return self._deco({'<class>': 'import', 'name': e.name})
        if isinstance(e, FileName):
            return {'<class>': 'file-name', 'name': e.name}
        raise TypeError(f'unknown IR element {e!r}')

    def root(self, m: Model) -> dict:
        out = {'<class>': 'root', 'elements': [self.element(e) for e in m.elements],
               'working-directory': m.working_dir}
        if m.comment is not None:
            out['comment'] = {'<class>': 'comment', 'string': m.comment}
        return out


def to_json(model: Model, decorate: bool = False, rng: Optional[random.Random] = None) -> dict:
    return JsonProjector(decorate, rng).root(model)


# ---------------------------------------------------------------------------------------------
# projection 2: expectations (what a correct parse must contain), in canonical plain form
# ---------------------------------------------------------------------------------------------

def _canon_ports(ports: List[Port]) -> list:
    return [{'name': p.name, 'type': list(p.type.ids), 'direction': p.direction,
             'injected': bool(p.injected), 'formals': []} for p in ports]


def _canon_event(e: Event) -> dict:
    return {'name': e.name, 'direction': e.direction, 'reply': list(e.reply.ids),
            'formals': [{'name': f.name, 'type': list(f.type.ids), 'direction': f.direction}
                        for f in e.formals]}


def expectations(model: Model) -> Dict[str, list]:
    """Per container, the canonical entries in source order (depth first, left to right;
    enums/subints nested in an interface appear where the interface appears)."""
    out: Dict[str, list] = {k: [] for k in KINDS}

    def canon_type(t, scope, shape):
        if isinstance(t, Enum):
            return {'kind': 'enum', 'fqn': scope + t.name, 'ns': list(scope), 'name': list(t.name),
                    'ns_shape': [list(x) for x in shape], 'fields': list(t.fields)}
        return {'kind': 'subint', 'fqn': scope + t.name, 'ns': list(scope), 'name': list(t.name),
                'ns_shape': [list(x) for x in shape], 'lo': t.lo, 'hi': t.hi}

    def walk(elements, scope: List[str], shape: List[List[str]]):
        # `shape`: the namespace names as written, one entry per namespace element (a compound
        # name My.Project is one entry) - the parent chain of a declaration mirrors it
        for e in elements:
            if isinstance(e, Namespace):
                walk(e.elements, scope + e.name, shape + [list(e.name)])
            elif isinstance(e, Unknown):
                continue
            elif isinstance(e, (Enum, SubInt)):
                ent = canon_type(e, scope, shape)
                out['enums' if isinstance(e, Enum) else 'subints'].append(ent)
            elif isinstance(e, Extern):
                out['externs'].append({'fqn': scope + e.name, 'ns': list(scope),
                                       'ns_shape': [list(x) for x in shape],
                                       'name': list(e.name), 'data': e.data})
            elif isinstance(e, Interface):
                iscope = scope + e.name
                types = [canon_type(t, iscope, shape + [list(e.name)]) for t in e.types
                         if not isinstance(t, Unknown)]
                out['interfaces'].append({'fqn': scope + e.name, 'ns': list(scope),
                                          'ns_shape': [list(x) for x in shape],
                                          'name': list(e.name), 'trail': iscope,
                                          'types': types,
                                          'events': [_canon_event(ev) for ev in e.events]})
                out['enums'].extend(t for t in types if t['kind'] == 'enum')
                out['subints'].extend(t for t in types if t['kind'] == 'subint')
            elif isinstance(e, (Component, Foreign)):
                key = 'components' if isinstance(e, Component) else 'foreigns'
                out[key].append({'fqn': scope + e.name, 'ns': list(scope), 'name': list(e.name),
                                 'ns_shape': [list(x) for x in shape],
                                 'ports': _canon_ports(e.ports)})
            elif isinstance(e, System):
                out['systems'].append({
                    'fqn': scope + e.name, 'ns': list(scope), 'name': list(e.name),
                    'ns_shape': [list(x) for x in shape],
                    'ports': _canon_ports(e.ports),
                    'instances': [{'name': i.name, 'type': list(i.type.ids)}
                                  for i in e.instances],
                    'bindings': [{'left': {'port': b.left[0], 'instance': b.left[1]},
                                  'right': {'port': b.right[0], 'instance': b.right[1]}}
                                 for b in e.bindings]})
            elif isinstance(e, Import):
                out['imports'].append({'name': e.name})
            elif isinstance(e, FileName):
                out['filenames'].append({'name': e.name})
            else:
                raise TypeError(e)

    walk(model.elements, [], [])
    return out


def canon_filecontents(fc) -> Dict[str, list]:
    """The same canonical form, read from dznpy's FileContents through public fields only."""

    def ns_of(tree) -> List[str]:
        # NamespaceTree: walk the parent chain ourselves (do not trust .fqn)
        chain = []
        node = tree
        while node is not None:
            if node.scope_name is not None:
                chain.append(list(node.scope_name.items))
            node = node.parent
        flat: List[str] = []
        for part in reversed(chain):
            flat.extend(part)
        return flat

    def shape_of(tree) -> List[List[str]]:
        chain = []
        node = tree
        while node is not None:
            if node.scope_name is not None:
                chain.append(list(node.scope_name.items))
            node = node.parent
        return list(reversed(chain))

    def ports(pp) -> list:
        return [{'name': p.name, 'type': list(p.type_name.value.items),
                 'direction': {'Provides': 'provides', 'Requires': 'requires'}[p.direction.value],
                 'injected': p.injected.value,
                 'formals': [repr(f) for f in p.formals.elements]} for p in pp.elements]

    def enum(e) -> dict:
        return {'kind': 'enum', 'fqn': list(e.fqn.items), 'ns': ns_of(e.parent_ns), 'ns_shape': shape_of(e.parent_ns),
                'name': list(e.name.value.items), 'fields': list(e.fields.elements)}

    def subint(s) -> dict:
        return {'kind': 'subint', 'fqn': list(s.fqn.items), 'ns': ns_of(s.parent_ns), 'ns_shape': shape_of(s.parent_ns),
                'name': list(s.name.value.items), 'lo': s.range.from_int, 'hi': s.range.to_int}

    def typ(t) -> dict:
        return enum(t) if type(t).__name__ == 'Enum' else subint(t)

    def event(e) -> dict:
        return {'name': e.name, 'direction': {'In': 'in', 'Out': 'out'}[e.direction.value],
                'reply': list(e.signature.type_name.value.items),
                'formals': [{'name': f.name, 'type': list(f.type_name.value.items),
                             'direction': {'In': 'in', 'Out': 'out',
                                           'InOut': 'inout'}[f.direction.value]}
                            for f in e.signature.formals.elements]}

    def comp(c) -> dict:
        return {'fqn': list(c.fqn.items), 'ns': ns_of(c.parent_ns), 'ns_shape': shape_of(c.parent_ns),
                'name': list(c.name.value.items), 'ports': ports(c.ports)}

    out: Dict[str, list] = {}
    out['components'] = [comp(c) for c in fc.components]
    out['foreigns'] = [comp(c) for c in fc.foreigns]
    out['enums'] = [enum(e) for e in fc.enums]
    out['subints'] = [subint(s) for s in fc.subints]
    out['externs'] = [{'fqn': list(x.fqn.items), 'ns': ns_of(x.parent_ns), 'ns_shape': shape_of(x.parent_ns),
                       'name': list(x.name.value.items), 'data': x.value.value}
                      for x in fc.externs]
    out['interfaces'] = [{'fqn': list(i.fqn.items), 'ns': ns_of(i.parent_ns), 'ns_shape': shape_of(i.parent_ns),
                          'name': list(i.name.value.items), 'trail': ns_of(i.ns_trail),
                          'types': [typ(t) for t in i.types.elements],
                          'events': [event(e) for e in i.events.elements]}
                         for i in fc.interfaces]
    out['systems'] = [dict(comp(s),
                           instances=[{'name': i.name, 'type': list(i.type_name.value.items)}
                                      for i in s.instances.elements],
                           bindings=[{'left': {'port': b.left.port_name,
                                               'instance': b.left.instance_name},
                                      'right': {'port': b.right.port_name,
                                                'instance': b.right.instance_name}}
                                     for b in s.bindings.elements])
                      for s in fc.systems]
    out['imports'] = [{'name': i.name} for i in fc.imports]
    out['filenames'] = [{'name': f.name} for f in fc.filenames]
    return out


# ---------------------------------------------------------------------------------------------
# reference lookup spec (C07 / C14): the set comprehension
# ---------------------------------------------------------------------------------------------

def declared_names(model: Model) -> List[Tuple[str, List[str], Any]]:
    """(kind, fqn, ir-object) of every findable declaration, in source order."""
    out = []

    def walk(elements, scope):
        for e in elements:
            if isinstance(e, Namespace):
                walk(e.elements, scope + e.name)
            elif type(e) in KIND_OF and KIND_OF[type(e)] in FINDABLE:
                out.append((KIND_OF[type(e)], scope + e.name, e))
                if isinstance(e, Interface):
                    for t in e.types:
                        if type(t) in KIND_OF:
                            out.append((KIND_OF[type(t)], scope + e.name + t.name, t))

    walk(model.elements, [])
    return out


def spec_lookup(decls: List[Tuple[str, List[str], Any]], scope: List[str],
                spelling: List[str]) -> List[Tuple[str, List[str], Any]]:
    """{d | exists k in 0..len(scope): d.fqn == scope[:k] + spelling}"""
    chain = [scope[:k] + spelling for k in range(len(scope), -1, -1)]
    return [d for d in decls if d[1] in chain]


def spec_resolution_order(scope: List[str], spelling: List[str]) -> List[List[str]]:
    return [scope[:k] + spelling for k in range(len(scope), -1, -1)]


def valid_spellings(decls, scope: List[str], target: List[str], kind: str) -> List[List[str]]:
    """All suffixes of `target` whose lookup from `scope` yields exactly the target."""
    out = []
    for k in range(len(target)):
        sp = target[k:]
        hits = spec_lookup(decls, scope, sp)
        if len(hits) == 1 and hits[0][1] == target and hits[0][0] == kind:
            out.append(sp)
    return out
