"""Script builders for the generated harness (see vlib.cxxgen.harness for the operations)."""
from __future__ import annotations

from typing import Dict, List, Optional


def mc_info(prog):
    """(port, claim event, release event, granting reply index) of the multi-client port."""
    mc = prog.enc.get('multiclient')
    if not mc:
        return None
    itf = prog.gen.interface_by_fqn(prog.info['ports'][mc['port']]['itf'])
    claim = next(e for e in itf.events if e.name == mc['claim'])
    fields = None
    for (_ent, info) in prog.gen.mc_interfaces:
        if info['claim'] == mc['claim'] and '.'.join(info['itf_fqn']) == \
                prog.info['ports'][mc['port']]['itf']:
            fields = info['fields']
    return {'port': mc['port'], 'claim': mc['claim'], 'release': mc['release'],
            'grant': fields.index(mc['reply'][0]), 'n_fields': len(fields), 'claim_event': claim,
            'fields': list(fields)}


CLIENT_POOL = ['A', 'B', 'C', 'D', 'E', 'a', 'AA', 'A1', 'client2', 'client10', 'client1', 'gui',
               'cli', 'web', 'Z', '0', '_x', 'B.b', 'b-1']
# identifiers longer than a small-string buffer, a log column, a fixed-size field: two that
# agree in their first 32 characters, one of 64, one of 200
LONG_CLIENTS = ['operator-console-of-the-heating-zone-A', 'operator-console-of-the-heating-zone-B',
                'x' * 33, 'service:' + 'y' * 56, 'remote/' + 'z' * 193]


def client_ids(rng, count: int) -> List[str]:
    """Client identifiers in registration order.  Identifiers are user-chosen strings kept in
    an ordered container by the selector, so their spelling and the order of registration are
    input dimensions: near-duplicates, numbered families whose textual order differs from the
    numeric one, registration in ascending, descending and arbitrary order."""
    ids = rng.sample(CLIENT_POOL, count)
    if rng.random() < 0.34:
        # one or two of them carry long identifiers
        for pos, long_id in zip(rng.sample(range(count), min(count, 2)),
                                rng.sample(LONG_CLIENTS, 2)):
            ids[pos] = long_id
    shape = rng.randrange(4)
    if shape == 0:
        ids.sort()
    elif shape == 1:
        ids.sort(reverse=True)
    return ids


def preamble(prog, clients=('A', 'B'), shape: Optional[str] = None, skip: Optional[str] = None,
             skip_client: str = '-', bind_clients: bool = True) -> List[str]:
    lines = [f'construct {shape if shape is not None else prog.locator_shape()}']
    if prog.enc.get('multiclient'):
        lines += [f'register {c}' for c in clients]
    if skip and skip_client == '-':
        lines.append(f'bindall - {skip}')
    else:
        lines.append('bindall -')
    if prog.enc.get('multiclient') and bind_clients:
        for c in clients:
            lines.append(f'bindall {c} {skip}' if (skip and skip_client == c) else f'bindall {c}')
    return lines


def is_mts_requires_out(prog, pname, ev) -> bool:
    p = prog.info['ports'][pname]
    return p['direction'] == 'requires' and ev.direction == 'out' and \
        prog.mapping.get(pname) == 'MTS'


def routing_script(prog, rounds: int = 3, gate: bool = True) -> str:
    """Every event of every exposed port in all four directions, `rounds` times.  On a
    multi-client port the claim changes hands between the rounds - once by release and claim,
    once by a claim the component grants while the previous holder still holds it, followed by
    that holder's release - so that the out-events of every round have exactly one receiver."""
    mci = mc_info(prog)
    lines = preamble(prog) + ['final', 'addresses']

    def claim_for(client):
        # once it holds the claim the client connects its handlers anew (a view that is
        # re-created): the out-events go to what is bound now
        return [f'reply comp/{mci["port"]}/{mci["claim"]} {mci["grant"]}',
                f'call {mci["port"]}/{mci["claim"]} {client}', 'quiesce',
                f'bindall {client}']

    def release_by(client):
        return [f'call {mci["port"]}/{mci["release"]} {client}', 'quiesce']
    if mci:
        lines += claim_for('A')
    for rnd in range(rounds):
        holder, other = ('A', 'B') if rnd % 2 == 0 else ('B', 'A')
        for pname, ev, user_calls in prog.events():
            key = f'{pname}/{ev.name}'
            mc_port = bool(mci and mci['port'] == pname)
            if mc_port and ev.name in (mci['claim'], mci['release']):
                continue
            if user_calls:
                client = f' {holder}' if mc_port else ''
                if gate and is_mts_requires_out(prog, pname, ev):
                    lines += ['gate close', f'call {key}{client}', 'gate open', 'quiesce']
                else:
                    lines += [f'call {key}{client}', 'quiesce']
            else:
                how = 'pump' if prog.mapping.get(pname) == 'MTS' else 'direct'
                lines += [f'raise {key} {how}', 'quiesce']
        if mci:
            if rnd % 2 == 0:
                lines += claim_for(other) + release_by(holder)
            else:
                lines += release_by(holder) + claim_for(other)
    return '\n'.join(lines) + '\n'


def nested_script(prog) -> str:
    """The wrapped component raises an out-event of a provides port while it handles an
    in-event of that port (what Dezyne components do all the time: the out-event is part of
    handling the in-event).  On a multi-client port the in-events are those of the claim
    holder - the release last, then once more for the next holder; the claim itself is left
    out (who holds the claim while it is being decided is not stated)."""
    mci = mc_info(prog)
    lines = preamble(prog) + ['final']
    plan = []
    for pname in prog.info['provides']:
        itf = prog.gen.interface_by_fqn(prog.info['ports'][pname]['itf'])
        ins = [e for e in itf.events if e.direction == 'in']
        outs = [e for e in itf.events if e.direction == 'out']
        if not ins or not outs:
            continue
        mc_port = bool(mci and mci['port'] == pname)
        if mc_port:
            ins = [e for e in ins if e.name not in (mci['claim'], mci['release'])] + \
                  [e for e in ins if e.name == mci['release']]
        plan.append((pname, ins, outs, mc_port))
    for holder in ('A', 'B'):
        if mci:
            lines += [f'reply comp/{mci["port"]}/{mci["claim"]} {mci["grant"]}',
                      f'call {mci["port"]}/{mci["claim"]} {holder}', 'quiesce']
        for pname, ins, outs, mc_port in plan:
            for idx, inev in enumerate(ins):
                out = outs[(idx + (holder == 'B')) % len(outs)]
                lines += [f'nest comp/{pname}/{inev.name} {pname}/{out.name}',
                          f'call {pname}/{inev.name}' + (f' {holder}' if mc_port else ''),
                          'quiesce']
        if not mci:
            break
    return '\n'.join(lines) + '\n'
