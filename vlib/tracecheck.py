"""Offline checkers over the JSON-lines event log of a harness run.  Pure functions
`(log, meta) -> [(mechanism, detail)]`; unit-tested on hand-made logs (tools/selfcheck.py).

meta: {'mapping': {port: 'STS'|'MTS'}, 'ports': {port: {'direction': 'provides'|'requires'}},
       'mc': None | {'port','claim','release','grant'}, 'origin': 'create'|'import'}
"""
from __future__ import annotations

from typing import Any, Dict, List, Optional, Tuple

Viol = Tuple[str, Dict[str, Any]]


def windows(log: List[dict]) -> List[Dict[str, Any]]:
    """One window per stimulus: the `call` record and everything up to the next `call`."""
    out = []
    cur = None
    for rec in log:
        if rec.get('kind') == 'call':
            cur = {'call': rec, 'records': []}
            out.append(cur)
        elif cur is not None:
            cur['records'].append(rec)
    return out


def _opposite(side: str) -> str:
    return 'comp' if side == 'user' else 'user'


def check_routing(log: List[dict], meta: Dict[str, Any], expected_client: Optional[str] = 'model'
                  ) -> Tuple[List[Viol], Dict[str, int]]:
    """C01: every stimulus arrives exactly once at the same-named event of the same-named port
    on the other side, arguments in order and intact, reply and out/inout values carried back."""
    viols: List[Viol] = []
    counts = {'stimuli': 0, 'arrivals': 0, 'args_compared': 0, 'returns_compared': 0}
    routes = set()
    holders: List[str] = []     # clients whose latest claim was granted and who did not release
    mc = meta.get('mc') or {}
    # a handler may be bound again at any time (also while its client holds the claim): the
    # event then arrives at the handler bound last, never at one that was replaced
    latest: Dict[Any, int] = {}
    for rec in log:
        if rec.get('kind') == 'bound':
            latest[(rec['d']['port'], rec['d']['event'], rec['d'].get('client'), rec['seq'])] = \
                rec['d']['gen']
    bound_at = sorted((key[3], key[:3], gen) for key, gen in latest.items())
    for win in windows(log):
        call = win['call']['d']
        counts['stimuli'] += 1
        arrivals = [r for r in win['records'] if r['kind'] == 'arrive']
        dones = [r for r in win['records'] if r['kind'] == 'arrive_done']
        if mc and call['side'] == 'user' and call['port'] == mc['port']:
            who = call.get('client')
            if call['event'] == mc['claim'] and dones and dones[0]['d']['reply'] == mc['grant']:
                holders = [h for h in holders if h != who] + [who]
            elif call['event'] == mc['release']:
                holders = [h for h in holders if h != who]
        rets = [r for r in win['records'] if r['kind'] == 'return'
                and r['d'].get('stim') == call['stim']]
        counts['arrivals'] += len(arrivals)
        ident = {'port_dir': meta['ports'][call['port']]['direction'], 'event_dir': call['dir'],
                 'semantics': meta['mapping'].get(call['port']),
                 'multiclient': bool(meta.get('mc') and meta['mc']['port'] == call['port'])}
        detail = dict(ident, port=call['port'], event=call['event'])
        if not arrivals:
            viols.append(('event-not-forwarded', detail))
            continue
        if len(arrivals) > 1:
            viols.append(('event-forwarded-more-than-once',
                          dict(detail, arrivals=[(a['d']['port'], a['d']['event'])
                                                 for a in arrivals])))
            continue
        arr = arrivals[0]['d']
        if arr['side'] != _opposite(call['side']):
            viols.append(('event-arrived-on-wrong-side', dict(detail, side=arr['side'])))
        if arr['port'] != call['port'] or arr['event'] != call['event'] or \
                arr['dir'] != call['dir']:
            viols.append(('event-misrouted', dict(detail, arrived_port=arr['port'],
                                                  arrived_event=arr['event'],
                                                  same_port=arr['port'] == call['port'])))
            continue
        if arr.get('gen') is not None:
            at = arrivals[0]['seq']
            current = None
            for seq, key, gen in bound_at:
                if seq < at and key == (arr['port'], arr['event'], arr.get('client')):
                    current = gen
            if current is not None:
                counts['handler_generations_compared'] = \
                    counts.get('handler_generations_compared', 0) + 1
                if current > 1:
                    counts['arrivals_at_a_handler_bound_again'] = \
                        counts.get('arrivals_at_a_handler_bound_again', 0) + 1
                if arr['gen'] != current:
                    viols.append(('event-delivered-to-a-replaced-handler',
                                  dict(detail, arrived_at_generation=arr['gen'],
                                       bound_last=current, client=arr.get('client'))))
        routes.add((call['port'], call['event'], call['dir'], ident['semantics']))
        counts['args_compared'] += len(call['args'])
        if arr['args'] != call['args']:
            kind = 'reordered' if sorted(arr['args']) == sorted(call['args']) else 'altered'
            viols.append((f'arguments-{kind}', dict(detail, sent=call['args'], got=arr['args'])))
        if ident['multiclient'] and call['side'] == 'comp' and expected_client is not None:
            want = expected_client if expected_client != 'model' else \
                (holders[0] if len(holders) == 1 else None)
            if want is not None:
                counts['multiclient_receivers_compared'] = \
                    counts.get('multiclient_receivers_compared', 0) + 1
                if arr.get('client') != want:
                    viols.append(('multiclient-out-event-to-wrong-client',
                                  dict(detail, client=arr.get('client'), holder=want)))
        if rets and dones:
            counts['returns_compared'] += 1
            ret, done = rets[0]['d'], dones[0]['d']
            if ret['outs'] != done['outs']:
                viols.append(('out-values-not-carried-back', dict(detail, callee=done['outs'],
                                                                 caller=ret['outs'])))
            if ret['reply'] != done['reply']:
                viols.append(('reply-not-carried-back', dict(detail, callee=done['reply'],
                                                            caller=ret['reply'])))
        elif not rets:
            viols.append(('call-did-not-return', detail))
    counts['distinct_routes'] = len(routes)
    return viols, counts


def check_nested(log: List[dict], meta: Dict[str, Any], script: str
                 ) -> Tuple[List[Viol], Dict[str, int]]:
    """C01 for out-events the component raises while it handles an in-event of the same port
    (`nest` operations): each arrives exactly once at the same-named event of the user's side
    of that port - on a multi-client port at the client whose in-event is being handled, who
    holds the claim - with the arguments intact."""
    viols: List[Viol] = []
    counts = {'nested_out_events_armed': 0, 'nested_out_events_raised': 0,
              'nested_out_events_to_the_claim_holder': 0}
    counts['nested_out_events_armed'] = sum(1 for ln in script.splitlines()
                                            if ln.startswith('nest '))
    mc = meta.get('mc') or {}
    last_user_call = None
    idx = 0
    while idx < len(log):
        rec = log[idx]
        if rec['kind'] == 'call' and rec['d'].get('side') == 'user':
            last_user_call = rec['d']
        if rec['kind'] != 'nested':
            idx += 1
            continue
        counts['nested_out_events_raised'] += 1
        port, event = rec['d']['out'].split('/')
        detail = {'port': port, 'event': event, 'while_handling': rec['d']['in'],
                  'semantics': meta['mapping'].get(port),
                  'multiclient': bool(mc and mc.get('port') == port)}
        call = next((r for r in log[idx + 1:idx + 3] if r['kind'] == 'call'), None)
        if call is None:
            viols.append(('nested-out-event-was-not-raised', detail))
            idx += 1
            continue
        stim = call['d']['stim']
        body = []
        for r in log[log.index(call) + 1:]:
            if r['kind'] == 'return' and r['d'].get('stim') == stim:
                break
            body.append(r)
        arrivals = [r['d'] for r in body if r['kind'] == 'arrive' and r['d']['side'] == 'user']
        if not arrivals:
            viols.append(('event-not-forwarded', dict(detail, nested=True)))
        elif len(arrivals) > 1:
            viols.append(('event-forwarded-more-than-once', dict(detail, nested=True,
                          arrivals=[(a['port'], a['event'], a.get('client')) for a in arrivals])))
        else:
            arr = arrivals[0]
            if (arr['port'], arr['event']) != (port, event):
                viols.append(('event-misrouted', dict(detail, nested=True, arrived_port=arr['port'],
                                                      arrived_event=arr['event'])))
            elif arr['args'] != call['d']['args']:
                viols.append(('arguments-altered', dict(detail, nested=True, sent=call['d']['args'],
                                                        got=arr['args'])))
            elif detail['multiclient'] and last_user_call is not None:
                counts['nested_out_events_to_the_claim_holder'] += 1
                if arr.get('client') != last_user_call.get('client'):
                    viols.append(('multiclient-out-event-to-wrong-client',
                                  dict(detail, nested=True, client=arr.get('client'),
                                       holder=last_user_call.get('client'))))
        idx += 1
    if counts['nested_out_events_raised'] < counts['nested_out_events_armed']:
        viols.append(('event-not-forwarded',
                      {'nested': True, 'armed': counts['nested_out_events_armed'],
                       'raised': counts['nested_out_events_raised'],
                       'what': 'an in-event that was to raise an out-event never reached the '
                               'component'}))
    return viols, counts


def check_semantics(log: List[dict], meta: Dict[str, Any]) -> Tuple[List[Viol], Dict[str, int]]:
    """C02: configured runtime semantics per port, from sequence numbers and thread context."""
    viols: List[Viol] = []
    counts = {'mts_provides_in': 0, 'mts_requires_out': 0, 'sts_events': 0,
              'identity_checks': 0, 'gate_tests': 0}
    addresses = [r['d'] for r in log if r['kind'] == 'addresses']
    dispatcher = None
    if addresses:
        addr = addresses[0]
        dispatcher = addr.get('shell_pump') if meta['origin'] == 'create' else addr.get('user_pump')
    for rec in log:
        if rec['kind'] == 'port_address':
            port = rec['d']['port']
            sem = meta['mapping'].get(port)
            same = rec['d']['accessor'] == rec['d']['component']
            counts['identity_checks'] += 1
            if sem == 'STS' and not same:
                viols.append(('sts-accessor-is-not-the-components-port', {'port': port}))
            if sem == 'MTS' and same:
                viols.append(('mts-accessor-hands-out-the-components-port', {'port': port}))
        if rec['kind'] == 'stalled_call':
            viols.append(('caller-blocked-on-queued-event', {}))
    gate_closed_at = None
    gate_open_after: Dict[int, int] = {}
    last_close = None
    for rec in log:
        if rec['kind'] == 'gate':
            if rec['d']['state'] == 'close':
                last_close = rec['seq']
            elif last_close is not None:
                gate_open_after[last_close] = rec['seq']
                last_close = None
    del gate_closed_at
    closes = sorted(gate_open_after)
    for win in windows(log):
        call_rec, call = win['call'], win['call']['d']
        if call['side'] != 'user':
            continue
        port = call['port']
        sem = meta['mapping'].get(port)
        pdir = meta['ports'][port]['direction']
        arrivals = [r for r in win['records'] if r['kind'] == 'arrive']
        dones = [r for r in win['records'] if r['kind'] == 'arrive_done']
        rets = [r for r in win['records'] if r['kind'] == 'return'
                and r['d'].get('stim') == call['stim']]
        posts = [r for r in win['records'] if r['kind'] == 'post']
        detail = {'port': port, 'event': call['event'], 'port_dir': pdir, 'semantics': sem}
        if not arrivals or not rets:
            continue  # routing problems are C01's business
        arr, ret = arrivals[0], rets[0]
        if sem == 'STS':
            counts['sts_events'] += 1
            if [p for p in posts if p['seq'] < ret['seq']]:
                viols.append(('sts-event-passes-through-dispatcher', detail))
            if arr['disp'] or arr['thr'] != call_rec['thr']:
                viols.append(('sts-event-runs-on-another-thread', detail))
        elif pdir == 'provides':
            counts['mts_provides_in'] += 1
            if not arr['disp']:
                viols.append(('mts-provides-in-event-not-in-dispatcher-context', detail))
            elif dispatcher is not None and arr['d'].get('pump') != dispatcher:
                viols.append(('mts-provides-in-event-on-foreign-dispatcher', detail))
            if dones and ret['seq'] < dones[0]['seq']:
                viols.append(('mts-provides-in-event-returned-before-execution', detail))
        else:
            counts['mts_requires_out'] += 1
            if not arr['disp']:
                viols.append(('mts-requires-out-event-not-in-dispatcher-context', detail))
            elif dispatcher is not None and arr['d'].get('pump') != dispatcher:
                viols.append(('mts-requires-out-event-on-foreign-dispatcher', detail))
            # gate choreography: closed before the call, opened after it returned
            close = max([c for c in closes if c < call_rec['seq']], default=None)
            if close is not None and gate_open_after[close] > call_rec['seq']:
                counts['gate_tests'] += 1
                opened = gate_open_after[close]
                if ret['seq'] > opened:
                    viols.append(('mts-requires-out-event-blocked-the-caller', detail))
                if arr['seq'] < opened:
                    viols.append(('mts-requires-out-event-executed-synchronously', detail))
            if arr['d']['args'] != call['args']:
                viols.append(('mts-requires-out-event-arguments-not-copied',
                              dict(detail, sent=call['args'], got=arr['d']['args'])))
    return viols, counts


def check_facilities(log: List[dict], meta: Dict[str, Any], shape: str
                     ) -> Tuple[List[Viol], Dict[str, int]]:
    """C09: facility ownership follows the configured origin.  `shape` holds the letters of the
    services the user's locator carried: p(ump), r(untime), x (an unrelated service)."""
    viols: List[Viol] = []
    counts = {'constructions': 1, 'constructed': 0, 'refused': 0, 'identity_comparisons': 0}
    create = meta['origin'] == 'create'
    constructed = any(r['kind'] == 'constructed' for r in log)
    failed = [r for r in log if r['kind'] == 'construct_failed']
    has_p, has_r = 'p' in shape, 'r' in shape
    must_fail = (has_p or has_r) if create else not (has_p and has_r)
    detail = {'origin': meta['origin'], 'shape': ''.join(sorted(shape))}
    if must_fail:
        counts['refused'] = 1 if failed else 0
        if constructed or not failed:
            viols.append(('construction-succeeded-with-wrong-facilities', detail))
        return viols, counts
    if not constructed:
        viols.append(('construction-failed-with-proper-facilities',
                      dict(detail, what=failed[0]['d'].get('what') if failed else None)))
        return viols, counts
    counts['constructed'] = 1
    before = next((r['d'] for r in log if r['kind'] == 'locator_before'), None)
    addr = next((r['d'] for r in log if r['kind'] == 'addresses'), None)
    comp = next((r['d'] for r in log if r['kind'] == 'component_constructed'), None)
    if before is None or addr is None or comp is None:
        viols.append(('facility-observation-missing', detail))
        return viols, counts
    user_before = {k: v for k, v in before['user_services']}
    user_after = {k: v for k, v in addr['user_services']}
    comp_services = {k: v for k, v in comp['services']}
    pump_key = next((k for k in comp_services if 'pump' in k), None)
    rt_key = next((k for k in comp_services if 'runtime' in k), None)
    counts['identity_comparisons'] += 1
    if user_before != user_after:
        viols.append(('user-locator-modified', dict(detail, before=sorted(user_before),
                                                    after=sorted(user_after))))
    if create:
        lo, hi = addr['shell'], addr['shell'] + addr['shell_size']
        counts['identity_comparisons'] += 4
        if comp['locator'] != addr.get('shell_locator'):
            viols.append(('component-not-constructed-with-the-shells-locator', detail))
        if comp['locator'] == before['user_locator']:
            viols.append(('component-constructed-with-the-prototype-locator', detail))
        if pump_key is None or rt_key is None:
            viols.append(('component-locator-lacks-dispatcher-or-runtime', detail))
        else:
            for key, label in ((pump_key, 'dispatcher'), (rt_key, 'runtime')):
                if not lo <= comp_services[key] < hi:
                    viols.append((f'{label}-not-owned-by-the-shell', detail))
            if comp_services[pump_key] != addr.get('shell_pump') or \
                    comp_services[rt_key] != addr.get('shell_runtime'):
                viols.append(('locator-accessor-differs-from-components-locator', detail))
            rest = {k: v for k, v in comp_services.items() if k not in (pump_key, rt_key)}
            if rest != user_before:
                viols.append(('component-locator-is-not-prototype-plus-facilities',
                              dict(detail, extra=sorted(set(rest) - set(user_before)),
                                   missing=sorted(set(user_before) - set(rest)))))
    else:
        counts['identity_comparisons'] += 3
        if comp['locator'] != before['user_locator']:
            viols.append(('component-not-constructed-with-the-users-locator', detail))
        if comp_services != user_before:
            viols.append(('component-locator-differs-from-users', detail))
        posts = [r for r in log if r['kind'] == 'post']
        counts['posts_seen'] = len(posts)
        for rec in posts:
            if rec['d']['pump'] != before['user_pump']:
                viols.append(('dispatcher-is-not-the-users', detail))
                break
        execs = [r for r in log if r['kind'] == 'arrive' and r['disp']]
        for rec in execs:
            if rec['d'].get('pump') != before['user_pump']:
                viols.append(('event-executed-on-a-foreign-dispatcher', detail))
                break
    return viols, counts


def check_final(log: List[dict], expect_throw: bool, what: str) -> List[Viol]:
    """C10: final construction throws iff something is unbound."""
    ok = any(r['kind'] == 'final_ok' for r in log)
    threw = [r for r in log if r['kind'] == 'final_threw']
    if expect_throw and (ok or not threw):
        return [('final-construction-missed-unbound-event', {'unbound': what})]
    if expect_throw and threw and threw[0]['d'].get('type') != 'binding_error':
        return [('final-construction-failed-with-other-error',
                 {'unbound': what, 'what': threw[0]['d'].get('what')})]
    if not expect_throw and not ok:
        return [('final-construction-failed-although-all-bound',
                 {'what': threw[0]['d'].get('what') if threw else None})]
    return []
