// C11 scenario harness (hand-written; the shell under test is what dznpy emitted for the fixed
// model Arb.Hub, see vlib/props/c11.py).  K client threads run claim / use / release cycles on
// a multi-client port, an environment thread lets the component raise out-events through the
// dispatcher at arbitrary times.  The wrapped mock component follows the interface protocol
// (grants iff unclaimed, release => unclaimed) and knows the claim holder from the `who`
// argument, so the oracle runs where the truth is: in the dispatcher thread, at the moment an
// out-event is raised.
//
//   harness_mt <clients> <cycles> <uses> <env_events> <log> [schedule-file bound rngseed]   (VSCHED)
//   harness_mt <clients> <cycles> <uses> <env_events> <log> <sleep-seed>                     (TSan)
#include "ArbShell.hh"
#include "vmon.hh"
#ifdef VSCHED
#include "vsched.hh"
#endif
#include <atomic>
#include <chrono>
#include <memory>
#include <random>
#include <thread>

using Shell = ::Arb::ArbShell;
using Comp = ::Arb::Hub;
using Port = ::Arb::IArb;
using Id = ::vx::T0;

static std::atomic<int> g_owner{-1};     // written in the dispatcher thread only
static int g_active = -1;                // dispatcher thread only: holder that has used the port
struct Deliv { int client; long long tag; };
static std::vector<Deliv> g_deliveries;  // dispatcher thread only
static Comp* g_comp = nullptr;
static long long g_judged = 0, g_unspecified = 0;
// set by a client thread when its release call has returned, cleared before it claims again: an
// out-event handed to that client while the flag is up arrived after it had let go of the claim
static std::atomic<bool> g_release_returned[64];
static std::atomic<long long> g_frees{0};        // releases the component has handled
static std::atomic<int> g_clients_finished{0};
static unsigned long long g_sleep_seed = 0;
static thread_local std::mt19937_64* t_rng = nullptr;

static void perturb(const char* where) {
#ifdef VSCHED
    vsched::yield(where);
#else
    (void)where;
    if (!g_sleep_seed) return;
    if (!t_rng) t_rng = new std::mt19937_64(g_sleep_seed ^ std::hash<std::thread::id>()(std::this_thread::get_id()));
    unsigned long long r = (*t_rng)();
    if (r % 4 == 0) std::this_thread::yield();
    else if (r % 4 == 1) std::this_thread::sleep_for(std::chrono::microseconds(r % 300));
#endif
}

static void violation(const char* what, int expected, int got_client, long long n) {
    vmon::J j; j.s("what", what).n("expected_client", expected).n("got_client", got_client).n("count", n);
    vmon::log("mt_violation", j);
}

// user code inside handlers and logger callbacks uses the shell's public queries (a client that
// annotates what it receives with the list of registered clients)
static std::function<size_t()> g_query_clients;
static void query_clients(const char* where) {
    if (!g_query_clients) return;
    if (g_query_clients() == 0) violation(where, -1, -1, 0);
}

// the component raises an out-event (dispatcher thread); judge the delivery right here
static void emit_done(const char* why) {
    size_t before = g_deliveries.size();
    long long tag = vmon::fresh_id();
    Id t; t.id = tag;
    int active = g_active;
    { vmon::J j; j.s("why", why).n("active", active).n("owner", g_owner.load()).n("tag", tag); vmon::log("raise_done", j); }
    g_comp->api.out.Done(t);
    size_t n = g_deliveries.size() - before;
    if (active >= 0) {
        ++g_judged;
        if (n == 0) violation("out-event-lost-although-claim-held", active, -1, 0);
        else if (n > 1) violation("out-event-delivered-several-times", active, g_deliveries.back().client, static_cast<long long>(n));
        else if (g_deliveries.back().client != active) violation("out-event-delivered-to-wrong-client", active, g_deliveries.back().client, 1);
        else if (g_deliveries.back().tag != tag) violation("out-event-argument-altered", active, g_deliveries.back().client, 1);
    } else {
        ++g_unspecified;
        if (n > 1) violation("out-event-delivered-several-times", -1, g_deliveries.back().client, static_cast<long long>(n));
    }
}

int main(int argc, char** argv) {
    if (argc < 6) return 2;
    const int clients = std::atoi(argv[1]), cycles = std::atoi(argv[2]), uses = std::atoi(argv[3]);
    const int env_events = std::atoi(argv[4]);
    const char* logpath = argv[5];
#ifdef VSCHED
    vsched::load(argc > 6 ? argv[6] : nullptr, argc > 7 ? std::atoi(argv[7]) : (1 << 30),
                 argc > 8 ? std::atoll(argv[8]) : 0);
    setenv("VSCHED_LOG", logpath, 1);
#else
    g_sleep_seed = argc > 6 ? std::strtoull(argv[6], nullptr, 10) : 0;
#endif
    vmon::yield_hook() = [](const char* where) { perturb(where); };

    dzn::locator loc;
    dzn::pump pump;
    dzn::runtime rt;
    loc.set(pump).set(rt);
    ::Dzn::ILog log;
    log.Info = [](const std::string& m) { perturb(m.c_str()); query_clients("no-client-identifiers-seen-from-logger"); };
    log.Warning = [](const std::string& m) { vmon::J j; j.s("msg", m); vmon::log("ilog_warning", j);
                                             query_clients("no-client-identifiers-seen-from-logger"); };
    log.Error = [](const std::string& m) { vmon::J j; j.s("msg", m); vmon::log("ilog_error", j); };

    // the logger is handed over as a copy that its owner re-binds right after construction: the
    // shell keeps what it needs and never logs through the caller's object
    auto handed = std::make_unique<::Dzn::ILog>(log);
    Shell shell(loc, *handed, "hub");
    handed->Info = handed->Warning = handed->Error =
        [](const std::string&) { violation("shell-logs-through-the-callers-logger-object", -1, -1, 0); };
    g_comp = static_cast<Comp*>(vmon::registry()["Arb.Hub"]);
    // protocol-following component (handlers run in the dispatcher thread only)
    g_comp->api.in.Acquire = [](Id who) {
        if (!vmon::in_dispatcher) violation("in-event-outside-dispatcher", -1, static_cast<int>(who.id), 0);
        if (g_owner.load() < 0) { g_owner = static_cast<int>(who.id); return Port::Result::Granted; }
        return Port::Result::Denied;
    };
    g_comp->api.in.Free = [](Id who) {
        if (!vmon::in_dispatcher) violation("in-event-outside-dispatcher", -1, static_cast<int>(who.id), 0);
        if (g_owner.load() == who.id) { g_active = -1; g_owner = -1; ++g_frees; }
        else violation("harness-client-released-without-claim", g_owner.load(), static_cast<int>(who.id), 0);
    };
    g_comp->ctl.in.Ping = [] {};
    g_comp->api.in.Use = [](Id who) {
        if (!vmon::in_dispatcher) violation("in-event-outside-dispatcher", -1, static_cast<int>(who.id), 0);
        if (g_owner.load() != who.id) { violation("harness-client-used-without-claim", g_owner.load(), static_cast<int>(who.id), 0); return; }
        g_active = static_cast<int>(who.id);
        emit_done("use");
    };

    // client identifiers are user-chosen strings kept in an ordered container: register them
    // in an order that is neither ascending nor descending
    static const char* const kClientNames[] = {"ui", "cli", "svc", "c10", "c2", "Z", "a", "m"};
    std::vector<Port*> ports;
    for (int k = 0; k < clients; ++k) {
        const std::string ident = k < 8 ? kClientNames[k] : "c" + std::to_string(k);
        Port& p = shell.ProvidesMultiClientApi(ident).port;
        p.out.Done = [k](Id t) { g_deliveries.push_back({k, t.id});
                                 if (g_release_returned[k].load())
                                     violation("out-event-delivered-after-the-clients-release-had-returned", -1, k, 1);
                                 query_clients("no-client-identifiers-seen-from-out-event-handler"); };
        ports.push_back(&p);
    }
    shell.FinalConstruct();
    g_query_clients = [&shell] { return shell.GetApiClientIdentifiers().size(); };
    vmon::log("mt_setup_done");

    std::atomic<long long> completed_cycles{0}, gave_up{0}, denied{0};
    std::vector<std::thread> threads;
#ifndef VSCHED
    // a process seldom holds one shell only: two more, unrelated shells of the same kind, each
    // with a dispatcher, a component and two clients of its own, run their cycles next to the
    // first.  Their components grant every claim (the later claimant overrules the earlier
    // one), so every path of the selector is taken in each of them.  Nothing of it is judged
    // functionally - what unrelated shells may not do is touch common state.
    struct Side {
        dzn::locator loc; dzn::pump pump; dzn::runtime rt; ::Dzn::ILog log;
        std::unique_ptr<Shell> shell; Comp* comp = nullptr; std::vector<Port*> ports;
    };
    static Side sides[2];
    static std::atomic<long long> side_done{0};
    for (int n = 0; n < 2; ++n) {
        Side& sd = sides[n];
        sd.loc.set(sd.pump).set(sd.rt);
        sd.log.Info = [](const std::string& m) { perturb(m.c_str()); };
        sd.log.Warning = [](const std::string&) {};
        sd.log.Error = [](const std::string&) {};
        sd.shell.reset(new Shell(sd.loc, sd.log, n == 0 ? "side0" : "side1"));
        sd.comp = static_cast<Comp*>(vmon::registry()["Arb.Hub"]);
        Comp* comp = sd.comp;
        comp->api.in.Acquire = [](Id) { return Port::Result::Granted; };
        comp->api.in.Free = [](Id) {};
        comp->ctl.in.Ping = [] {};
        comp->api.in.Use = [comp](Id) { Id t; t.id = 1; comp->api.out.Done(t); };
        for (int k = 0; k < 2; ++k) {
            Port& p = sd.shell->ProvidesMultiClientApi(
                std::string("a-client-of-another-shell-with-a-long-name-") + std::to_string(k)).port;
            p.out.Done = [](Id) { ++side_done; };
            sd.ports.push_back(&p);
        }
        sd.shell->FinalConstruct();
        for (int k = 0; k < 2; ++k) {
            threads.emplace_back([&sd, k, cycles, n] {
                vmon::thread_tag = 200 + 10 * n + k;
                Port& p = *sd.ports[static_cast<size_t>(k)];
                Id me; me.id = k;
                for (int c = 0; c < cycles; ++c) {
                    (void)p.in.Acquire(me);
                    p.in.Use(me);
                    perturb("side");
                    p.in.Free(me);
                }
            });
        }
    }
#endif
    for (int k = 0; k < clients; ++k) {
        threads.emplace_back([&, k] {
            vmon::thread_tag = k + 1;
#ifdef VSCHED
            vsched::attach("c" + std::to_string(k));
#endif
            Port& p = *ports[static_cast<size_t>(k)];
            Id me; me.id = k;
            for (int c = 0; c < cycles; ++c) {
                int tries = 0;
                bool granted = false;
                g_release_returned[k] = false;
                while (!granted) {
                    granted = p.in.Acquire(me) == Port::Result::Granted;
                    if (granted) break;
                    ++denied;
                    if (++tries > 200) { ++gave_up; break; }
#ifdef VSCHED
                    vsched::block_until([] { return g_owner.load() < 0; }, "retry");
#else
                    perturb("retry");
#endif
                }
                if (!granted) break;
                // a retrying client asks again although it holds the claim; the component says
                // no - and that answer takes nothing away from the holder
                if ((c + k) % 2 == 0 && p.in.Acquire(me) == Port::Result::Granted)
                    violation("harness-component-granted-twice", k, k, 0);
                for (int u = 0; u < uses; ++u) p.in.Use(me);
                p.in.Free(me);
                g_release_returned[k] = true;
                ++completed_cycles;
            }
            ++g_clients_finished;
#ifdef VSCHED
            vsched::finish();
#endif
        });
    }
    threads.emplace_back([&] {
        vmon::thread_tag = 100;
#ifdef VSCHED
        vsched::attach("env");
#endif
        long long seen = 0;
        for (int i = 0; i < env_events; ++i) {
            perturb("env");
            if (i % 2 == 0) {
                // a late out-event: raised right after the component has handled a release
                // (while the releasing client is on its way out), if there still is one to come
                auto ready = [&] { return g_frees.load() > seen || g_clients_finished.load() >= clients; };
#ifdef VSCHED
                vsched::block_until(ready, "env-after-release");
#else
                for (int spin = 0; spin < 20000 && !ready(); ++spin) std::this_thread::yield();
#endif
                seen = g_frees.load();
            }
            pump([] { emit_done("env"); });
        }
#ifdef VSCHED
        vsched::finish();
#endif
    });
#ifdef VSCHED
    pump.vsched_start();
    vsched::run(clients + 2);
#else
    for (auto& t : threads) t.join();
    pump.vmon_quiesce();
    for (auto& sd : sides) sd.pump.vmon_quiesce();
#endif
    {
        vmon::J j;
        j.n("completed_cycles", completed_cycles.load()).n("gave_up", gave_up.load()).n("denied", denied.load())
         .n("judged", g_judged).n("unspecified", g_unspecified).n("deliveries", static_cast<long long>(g_deliveries.size()))
         .n("owner_at_end", g_owner.load());
        vmon::log("mt_summary", j);
    }
    vmon::log("end");
    vmon::dump(logpath);
#ifdef VSCHED
    vsched::write_trace("completed");
    std::_Exit(0);
#else
    return 0;
#endif
}
