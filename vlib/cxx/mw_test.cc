// C11 monitor 3: the mutex-wrapped helper alone, built with ThreadSanitizer.
//   mw_test <threads> <iterations>   -> prints one JSON line, exit 0 iff every assertion held
#include MW_HEADER
#include <atomic>
#include <cstdio>
#include <cstdlib>
#include <thread>
#include <vector>

struct Data { long long counter = 0; long long shadow = 0; };

int main(int argc, char** argv) {
    const int threads = argc > 1 ? std::atoi(argv[1]) : 8;
    const int iters = argc > 2 ? std::atoi(argv[2]) : 20000;
    MW_NS::MutexWrapped<Data> mw;
    std::atomic<int> inside{0};
    std::atomic<long long> overlap{0};
    std::vector<std::thread> ts;
    for (int t = 0; t < threads; ++t) {
        ts.emplace_back([&] {
            for (int i = 0; i < iters; ++i) {
                auto lockAndData = mw();
                if (inside.fetch_add(1) != 0) ++overlap;
                lockAndData->counter += 1;          // plain, unsynchronised field: TSan watches it
                lockAndData->shadow = lockAndData->counter;
                inside.fetch_sub(1);
                if (i % 2) lockAndData.reset();     // explicit release, else scope exit
            }
        });
    }
    for (auto& t : ts) t.join();
    long long total = mw()->counter;
    // release on reset(): a second thread must be able to acquire while the first still has the handle
    bool reset_releases = false, scope_releases = false;
    {
        auto h = mw();
        h.reset();
        std::atomic<bool> got{false};
        std::thread other([&] { auto g = mw(); got = true; });
        other.join();                                 // would block forever if reset() kept the lock
        reset_releases = got;
    }
    {
        { auto h = mw(); h->counter += 0; }
        std::atomic<bool> got{false};
        std::thread other([&] { auto g = mw(); got = true; });
        other.join();
        scope_releases = got;
    }
    std::printf("{\"total\":%lld,\"expected\":%lld,\"overlap\":%lld,\"reset_releases\":%s,\"scope_releases\":%s}\n",
                total, static_cast<long long>(threads) * iters, overlap.load(),
                reset_releases ? "true" : "false", scope_releases ? "true" : "false");
    return (total == static_cast<long long>(threads) * iters && overlap == 0 && reset_releases && scope_releases) ? 0 : 1;
}
