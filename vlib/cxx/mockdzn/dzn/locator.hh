// Mock of the Dezyne 2.17 C++ runtime header dzn/locator.hh.
#ifndef DZN_LOCATOR_HH
#define DZN_LOCATOR_HH

#include <iostream>
#include <map>
#include <stdexcept>
#include <string>
#include <typeinfo>

namespace dzn
{
  struct locator
  {
  public:
    typedef std::pair<std::string, std::string> Key;
  private:
    std::map<Key, const void*> services;
    locator(const std::map<Key, const void*>& s) : services(s) {}
  public:
    locator() {}
    locator(const locator&) = delete;
    locator& operator=(const locator&) = delete;
    locator(locator&&) = default;
    locator& operator=(locator&&) = default;
    locator clone() const { return locator(services); }
    template <typename T>
    locator& set(T& t, const std::string& key = "")
    {
      services[Key(typeid(T).name(), key)] = &t;
      return *this;
    }
    template <typename T>
    T* try_get(const std::string& key = "") const
    {
      std::map<Key, const void*>::const_iterator it = services.find(Key(typeid(T).name(), key));
      if (it != services.end() && it->second)
        return reinterpret_cast<T*>(const_cast<void*>(it->second));
      return 0;
    }
    template <typename T>
    T& get(const std::string& key = "") const
    {
      if (T* t = try_get<T>(key))
        return *t;
      throw std::runtime_error("<" + std::string(typeid(T).name()) + ",\"" + key + "\"> not available");
    }
    // mock-only introspection (used by the instrumented mock components)
    const std::map<Key, const void*>& vmon_services() const { return services; }
  };
}
#endif //DZN_LOCATOR_HH
