// Mock of the Dezyne 2.17 C++ runtime header dzn/meta.hh (API the generated code uses).
#ifndef DZN_META_HH
#define DZN_META_HH

#include <algorithm>
#include <functional>
#include <stdexcept>
#include <string>
#include <vector>

namespace dzn
{
  struct meta;

  namespace port
  {
    struct meta
    {
      struct
      {
        std::string name;
        const void* port;
        const void* component;
        const dzn::meta* meta;
      } provide;

      struct
      {
        std::string name;
        const void* port;
        const void* component;
        const dzn::meta* meta;
      } require;
    };
  }

  struct meta
  {
    std::string name;
    std::string type;
    const meta* parent;
    mutable std::vector<const port::meta*> require;
    mutable std::vector<const meta*> children;
    mutable std::vector<std::function<void()>> ports_connected;
  };

  inline std::string path(const meta* m, std::string p = "")
  {
    p = p.empty() ? p : "." + p;
    if (!m) return "<external>" + p;
    if (!m->parent) return m->name + p;
    return path(m->parent, m->name + p);
  }

  inline std::string path(const void* c, std::string p = "")
  {
    if (!c) return "<external>." + p;
    return reinterpret_cast<const meta*>(c)->name + "." + p;
  }

  struct binding_error: public std::runtime_error
  {
    binding_error(const port::meta& m, const std::string& msg)
    : std::runtime_error("not connected: " + m.provide.name + "/" + m.require.name + "." + msg)
    {}
  };

  inline void check_bindings(const dzn::meta* m)
  {
    std::for_each(m->ports_connected.begin(), m->ports_connected.end(), [](const std::function<void()>& p){p();});
    std::for_each(m->children.begin(), m->children.end(), check_bindings);
  }
}
#endif //DZN_META_HH
