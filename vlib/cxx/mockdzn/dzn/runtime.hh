// Mock of the Dezyne 2.17 C++ runtime header dzn/runtime.hh (only what the shells touch).
#ifndef DZN_RUNTIME_HH
#define DZN_RUNTIME_HH

#include <dzn/meta.hh>
#include <dzn/locator.hh>

#include <algorithm>
#include <iostream>
#include <map>
#include <queue>
#include <tuple>

namespace dzn
{
  struct runtime
  {
    runtime(const runtime&) = delete;
    runtime(runtime&&) = delete;
    std::map<void*, std::tuple<bool, void*, std::queue<std::function<void()> >, bool> > queues;
    runtime() {}
  };
}
#endif //DZN_RUNTIME_HH
