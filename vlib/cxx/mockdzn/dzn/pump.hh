// Mock of the Dezyne 2.17 C++ runtime header dzn/pump.hh: a dispatcher with one worker thread,
// and dzn::shell() in its void and value-returning overloads built on std::promise, as Dezyne
// ships them.  Instrumented through vmon (post / exec_begin / exec_end, gate, stall detection).
#ifndef DZN_PUMP_HH
#define DZN_PUMP_HH
#ifndef VMON_REAL_MUTEX
#define VMON_REAL_MUTEX std::mutex
#endif

#include <condition_variable>
#include <functional>
#include <future>
#include <map>
#include <mutex>
#include <queue>
#include <set>
#include <thread>
#include <type_traits>

#include "vmon.hh"
#ifdef VSCHED
#include <optional>
#include "vsched.hh"
#endif

namespace dzn
{
  struct pump
  {
    VMON_REAL_MUTEX mtx_;
    std::condition_variable condition;
    std::queue<std::pair<long long, std::function<void()>>> queue;
    bool running = true;
    bool busy = false;
    std::thread::id thread_id;
    std::thread worker;

#ifdef VSCHED
    pump() {}
    // scheduler builds: the worker is a managed thread started explicitly after set-up
    void vsched_start() { worker = std::thread([this] { vsched::attach("pump", true); run(); }); worker.detach(); }
#else
    pump() : worker([this] { run(); }) {}
#endif
    pump(const pump&) = delete;
    pump(pump&&) = delete;
    ~pump()
    {
      {
        std::lock_guard<VMON_REAL_MUTEX> g(mtx_);
        running = false;
      }
      vmon::gate().open();
      condition.notify_all();
      if (worker.joinable()) worker.join();
    }
    void run()
    {
      vmon::in_dispatcher = true;
      vmon::current_pump = this;
      vmon::thread_tag = -1;
      thread_id = std::this_thread::get_id();
      for (;;)
      {
        std::pair<long long, std::function<void()>> task;
#ifdef VSCHED
        vsched::block_until([this] { return !queue.empty() || !running; }, "pump/idle");
#endif
        {
          std::unique_lock<VMON_REAL_MUTEX> l(mtx_);
          condition.wait(l, [this] { return !queue.empty() || !running; });
          if (queue.empty()) return;
          task = std::move(queue.front());
          queue.pop();
          busy = true;
        }
        vmon::gate().pass();
        vmon::yield_point("pump/exec");
        { vmon::J j; j.n("task", task.first).p("pump", this); vmon::log("exec_begin", j); }
        task.second();
        { vmon::J j; j.n("task", task.first).p("pump", this); vmon::log("exec_end", j); }
        {
          std::lock_guard<VMON_REAL_MUTEX> g(mtx_);
          busy = false;
        }
        condition.notify_all();
      }
    }
    void operator()(const std::function<void()>& e)
    {
      vmon::yield_point("pump/post");
      long long id = vmon::fresh_id();
      { vmon::J j; j.n("task", id).p("pump", this); vmon::log("post", j); }
      {
        std::lock_guard<VMON_REAL_MUTEX> g(mtx_);
        queue.push(std::make_pair(id, e));
      }
      condition.notify_all();
    }
    // block until everything posted so far has been executed (driver-side helper, mock only)
    void vmon_quiesce()
    {
      std::unique_lock<VMON_REAL_MUTEX> l(mtx_);
      condition.wait(l, [this] { return queue.empty() && !busy; });
    }
  };

  inline void vmon_before_blocking_on_pump()
  {
    // a caller is about to block until the dispatcher has run its closure: if the test closed
    // the gate this call can never return by itself - record that fact (a logical observation,
    // no timer) and open the gate so that the process can finish
    if (!vmon::in_dispatcher && vmon::gate().is_closed())
    {
      vmon::log("stalled_call");
      vmon::gate().open();
    }
    vmon::yield_point("shell/block");
  }

  template <typename L, typename = typename std::enable_if<std::is_void<decltype(std::declval<L>()())>::value>::type>
  void shell(dzn::pump& pump, L&& l)
  {
#ifdef VSCHED
    bool ready = false;
    pump([&] { l(); ready = true; });
    vsched::block_until([&] { return ready; }, "shell/block");
    return;
#endif
    std::promise<void> p;
    pump([&] { l(); p.set_value(); });
    vmon_before_blocking_on_pump();
    return p.get_future().get();
  }

  template <typename L, typename = typename std::enable_if<!std::is_void<decltype(std::declval<L>()())>::value>::type>
  auto shell(dzn::pump& pump, L&& l) -> decltype(l())
  {
#ifdef VSCHED
    std::optional<decltype(l())> result;
    pump([&] { result = l(); });
    vsched::block_until([&] { return result.has_value(); }, "shell/block");
    return *result;
#endif
    std::promise<decltype(l())> p;
    pump([&] { p.set_value(l()); });
    vmon_before_blocking_on_pump();
    return p.get_future().get();
  }
}
#endif //DZN_PUMP_HH
