// vmutex - force-included (-include vmutex.hh) in -DVSCHED builds only.  Every std::mutex the
// emitted code declares becomes a cooperative mutex whose lock() and unlock() are yield points
// of the deterministic scheduler, so that interleavings *between* two critical sections of the
// emitted code (e.g. a check under one lock and an update under a second one) are explored too.
// The whole standard library is included first, so the macro below only rewrites user code; the
// mock runtime itself keeps real mutexes through VMON_REAL_MUTEX.
#pragma once
#include <bits/stdc++.h>

namespace vreal { using real_mtx = std::mutex; }
#define VMON_REAL_MUTEX ::vreal::real_mtx

#include "vsched.hh"

namespace std {
struct vsched_mutex {
    vreal::real_mtx real;
    bool held = false;
    vsched_mutex() = default;
    vsched_mutex(const vsched_mutex&) = delete;
    vsched_mutex& operator=(const vsched_mutex&) = delete;
    void lock() {
        if (!vsched::st().active || !vsched::self) { real.lock(); held = true; return; }
        vsched::yield("mutex/lock");
        vsched::block_until([this] { return !held; }, "mutex/wait");
        held = true;
    }
    bool try_lock() {
        if (!vsched::st().active || !vsched::self) { bool ok = real.try_lock(); if (ok) held = true; return ok; }
        if (held) return false;
        held = true;
        return true;
    }
    void unlock() {
        if (!vsched::st().active || !vsched::self) { held = false; real.unlock(); return; }
        held = false;
        vsched::yield("mutex/unlock");
    }
};
}
#define mutex vsched_mutex
