// vmon - instrumentation shared by the mock Dezyne runtime, the mock model headers and the
// generated harnesses.  One process-wide, mutex-protected, append-only event log with a global
// sequence number; every record carries the logical thread tag and whether the calling thread is
// the dispatcher (pump worker).  Part of the trusted base of every C++ check.
#pragma once
#ifndef VMON_REAL_MUTEX
#define VMON_REAL_MUTEX std::mutex
#endif
#include <atomic>
#include <condition_variable>
#include <cstdio>
#include <cstdlib>
#include <functional>
#include <map>
#include <mutex>
#include <sstream>
#include <string>
#include <thread>
#include <vector>

namespace vmon {

inline VMON_REAL_MUTEX& mtx() { static VMON_REAL_MUTEX m; return m; }
inline std::vector<std::string>& lines() { static std::vector<std::string> v; return v; }
inline std::atomic<long long>& seq() { static std::atomic<long long> s{0}; return s; }
inline std::atomic<long long>& idgen() { static std::atomic<long long> s{1000}; return s; }
inline long long fresh_id() { return ++idgen(); }

inline thread_local bool in_dispatcher = false;
inline thread_local const void* current_pump = nullptr;
inline thread_local int thread_tag = 0;   // 0 = main/driver, 1.. = client threads, -1 = pump

// tiny JSON object builder
struct J {
    std::ostringstream os;
    bool first = true;
    J() { os << "{"; }
    J& key(const char* k) { os << (first ? "" : ",") << "\"" << k << "\":"; first = false; return *this; }
    J& s(const char* k, const std::string& v) {
        key(k); os << "\"";
        for (char c : v) { if (c == '"' || c == '\\') os << '\\' << c; else if (c == '\n') os << "\\n"; else os << c; }
        os << "\""; return *this; }
    J& n(const char* k, long long v) { key(k); os << v; return *this; }
    J& b(const char* k, bool v) { key(k); os << (v ? "true" : "false"); return *this; }
    J& p(const char* k, const void* v) { key(k); os << reinterpret_cast<unsigned long long>(v); return *this; }
    J& a(const char* k, const std::vector<long long>& v) {
        key(k); os << "["; for (size_t i = 0; i < v.size(); ++i) os << (i ? "," : "") << v[i]; os << "]"; return *this; }
    J& raw(const char* k, const std::string& v) { key(k); os << v; return *this; }
    std::string str() { return os.str() + "}"; }
};

inline void log(const std::string& kind, J& j) {
    std::lock_guard<VMON_REAL_MUTEX> g(mtx());
    long long n = ++seq();
    std::ostringstream os;
    os << "{\"seq\":" << n << ",\"kind\":\"" << kind << "\",\"disp\":" << (in_dispatcher ? "true" : "false")
       << ",\"thr\":" << thread_tag << ",\"d\":" << j.str() << "}";
    lines().push_back(os.str());
}
inline void log(const std::string& kind) { J j; log(kind, j); }

inline void dump(const char* path) {
    std::lock_guard<VMON_REAL_MUTEX> g(mtx());
    FILE* f = path ? std::fopen(path, "w") : stdout;
    if (!f) return;
    for (auto& l : lines()) { std::fputs(l.c_str(), f); std::fputc('\n', f); }
    if (path) std::fclose(f);
}

// ---- gate: while closed, pump workers queue but do not run tasks -------------------------
struct Gate {
    VMON_REAL_MUTEX m;
    std::condition_variable cv;
    bool closed = false;
    void close() { std::lock_guard<VMON_REAL_MUTEX> g(m); closed = true; }
    void open() { { std::lock_guard<VMON_REAL_MUTEX> g(m); closed = false; } cv.notify_all(); }
    bool is_closed() { std::lock_guard<VMON_REAL_MUTEX> g(m); return closed; }
    void pass() { std::unique_lock<VMON_REAL_MUTEX> l(m); cv.wait(l, [this] { return !closed; }); }
};
inline Gate& gate() { static Gate g; return g; }

// ---- registry of mock components (the shell keeps its encapsulee private) -----------------
inline std::map<std::string, void*>& registry() { static std::map<std::string, void*> r; return r; }

// ---- scripted replies: key "side/port/event" -> queue of reply indices ---------------------
inline std::map<std::string, std::vector<long long>>& replies() {
    static std::map<std::string, std::vector<long long>> r; return r; }
inline long long next_reply(const std::string& key, long long dflt) {
    std::lock_guard<VMON_REAL_MUTEX> g(mtx());
    auto it = replies().find(key);
    if (it == replies().end() || it->second.empty()) return dflt;
    long long v = it->second.front();
    it->second.erase(it->second.begin());
    return v;
}
inline void push_reply(const std::string& key, long long v) {
    std::lock_guard<VMON_REAL_MUTEX> g(mtx());
    replies()[key].push_back(v);
}

// ---- scripted re-entry: while handling "side/port/event" the handler does something more --
inline std::map<std::string, std::function<void()>>& nested() {
    static std::map<std::string, std::function<void()>> n; return n; }
inline void set_nested(const std::string& key, std::function<void()> f) {
    std::lock_guard<VMON_REAL_MUTEX> g(mtx());
    nested()[key] = std::move(f);
}
inline void run_nested(const std::string& key) {
    std::function<void()> f;
    {
        std::lock_guard<VMON_REAL_MUTEX> g(mtx());
        auto it = nested().find(key);
        if (it == nested().end()) return;
        f = std::move(it->second);
        nested().erase(it);
    }
    if (f) f();
}

// optional yield hook (thread-schedule perturbation in TSan runs / deterministic scheduler)
inline std::function<void(const char*)>& yield_hook() { static std::function<void(const char*)> h; return h; }
inline void yield_point(const char* where) { if (yield_hook()) yield_hook()(where); }

} // namespace vmon
