// vsched - deterministic cooperative scheduler for the C11 scenario (only in -DVSCHED builds).
//
// All managed threads (clients, environment, pump worker) run one at a time.  A thread gives up
// control only at yield points (vsched::yield) and at blocking points (vsched::block_until);
// at each of them the scheduler picks the next thread among the enabled ones: by the choice
// prefix read from the schedule file first, by the default policy afterwards (keep running the
// current thread if it is enabled, else the lowest id).  Every decision is recorded as
// (number of enabled threads, chosen index) so that a driver can enumerate schedules
// depth-first by re-running the process.  A preemption bound limits how often a thread that is
// still enabled may be switched away from.  "No thread enabled while some are unfinished" is a
// deadlock - a logical verdict, no timer involved.
#pragma once
#ifndef VMON_REAL_MUTEX
#define VMON_REAL_MUTEX std::mutex
#endif
#include <algorithm>
#include <atomic>
#include <condition_variable>
#include <cstdio>
#include <cstdlib>
#include <functional>
#include <mutex>
#include <string>
#include <thread>
#include <vector>

#include "vmon.hh"

namespace vsched {

struct Thread {
    int id = 0;
    std::string name;
    bool finished = false;
    bool daemon = false;                // the pump worker: never finishes by itself
    bool go = false;
    std::function<bool()> blocked_on;   // empty => enabled
    std::condition_variable cv;
};

struct State {
    VMON_REAL_MUTEX m;
    std::vector<Thread*> threads;
    Thread* current = nullptr;
    std::vector<int> prefix;
    std::vector<std::string> decisions;   // "n:c:thread@where"
    size_t step = 0;
    int preemptions = 0;
    int bound = 1 << 30;
    bool active = false;
    long long rng = 0;                    // != 0: random default policy (xorshift)
    size_t max_steps = 100000;
    bool done = false;
    std::condition_variable done_cv;
};
inline State& st() { static State s; return s; }
inline thread_local Thread* self = nullptr;

inline void write_trace(const char* verdict) {
    const char* path = std::getenv("VSCHED_TRACE");
    if (!path) return;
    FILE* f = std::fopen(path, "w");
    if (!f) return;
    std::fprintf(f, "{\"verdict\":\"%s\",\"decisions\":[", verdict);
    for (size_t i = 0; i < st().decisions.size(); ++i)
        std::fprintf(f, "%s\"%s\"", i ? "," : "", st().decisions[i].c_str());
    std::fprintf(f, "]}\n");
    std::fclose(f);
}

[[noreturn]] inline void die(const char* verdict, const char* kind) {
    vmon::J j; j.s("verdict", verdict);
    // the log mutex may be held by nobody here (single running thread)
    vmon::log(kind, j);
    vmon::dump(std::getenv("VSCHED_LOG"));
    write_trace(verdict);
    std::_Exit(3);
}

// translate a recorded choice (default first) back to an index among the enabled threads
inline size_t decode_choice(size_t rec, size_t dflt, size_t n) {
    if (n <= 1) return 0;
    if (rec == 0) return dflt;
    return rec <= dflt ? rec - 1 : rec;
}

// pick and wake the next thread; caller holds st().m and is `from` (may be finished/blocked)
inline void schedule_locked(std::unique_lock<VMON_REAL_MUTEX>& lock, Thread* from, const char* where) {
    State& s = st();
    std::vector<Thread*> enabled;
    bool unfinished = false;
    for (Thread* t : s.threads) {
        if (t->finished) continue;
        if (!t->daemon) unfinished = true;
        if (!t->blocked_on || t->blocked_on()) enabled.push_back(t);
    }
    if (!unfinished && enabled.empty()) { s.current = nullptr; s.done = true; s.done_cv.notify_all(); return; }
    if (enabled.empty()) {
        bool only_daemons = true;
        for (Thread* t : s.threads) if (!t->finished && !t->daemon) only_daemons = false;
        if (only_daemons) { s.current = nullptr; s.done = true; s.done_cv.notify_all(); return; }
        lock.unlock(); die("deadlock", "vsched_deadlock");
    }
    if (++s.step > s.max_steps) { lock.unlock(); die("step-limit", "vsched_step_limit"); }
    bool from_enabled = false;
    for (Thread* t : enabled) if (t == from) from_enabled = true;
    size_t n = enabled.size();
    size_t choice = 0;
    size_t dflt = 0;
    if (from_enabled) for (size_t i = 0; i < n; ++i) if (enabled[i] == from) dflt = i;
    if (from_enabled && s.preemptions >= s.bound) { n = 1; choice = 0; enabled[0] = from; }
    else if (s.decisions.size() < s.prefix.size()) {
        size_t rec_in = static_cast<size_t>(s.prefix[s.decisions.size()]);
        if (rec_in >= n) rec_in = n - 1;
        choice = decode_choice(rec_in, dflt, n);
    } else if (s.rng != 0) {
        s.rng ^= s.rng << 13; s.rng ^= s.rng >> 7; s.rng ^= s.rng << 17;
        choice = static_cast<size_t>((s.rng & 0x7fffffffffffffffLL) % static_cast<long long>(n));
    } else {
        choice = dflt;
    }
    Thread* next = enabled[choice];
    if (from_enabled && next != from) ++s.preemptions;
    // decisions are recorded with the default policy's pick moved to index 0, so that the
    // all-zero extension of a prefix is "no further preemption"
    size_t rec = choice;
    if (n > 1) { if (choice == dflt) rec = 0; else if (choice < dflt) rec = choice + 1; }
    s.decisions.push_back(std::to_string(n) + ":" + std::to_string(rec) + ":" + next->name + "@" + where);
    next->blocked_on = nullptr;
    s.current = next;
    next->go = true;
    next->cv.notify_all();
}

inline void wait_for_go(std::unique_lock<VMON_REAL_MUTEX>& lock, Thread* me) {
    me->cv.wait(lock, [me] { return me->go; });
    me->go = false;
}

inline std::atomic<int>& attached() { static std::atomic<int> n{0}; return n; }

// a new managed thread announces itself and waits until the scheduler picks it
inline void attach(const std::string& name, bool daemon = false) {
    State& s = st();
    std::unique_lock<VMON_REAL_MUTEX> lock(s.m);
    Thread* t = new Thread();
    t->id = static_cast<int>(s.threads.size());
    t->name = name;
    t->daemon = daemon;
    s.threads.push_back(t);
    self = t;
    ++attached();
    wait_for_go(lock, t);
}

// main (unmanaged) thread: wait until `expected` threads have attached, run the scenario and
// return when every non-daemon thread has finished
inline void run(int expected) {
    State& s = st();
    while (attached() < expected) std::this_thread::yield();
    std::unique_lock<VMON_REAL_MUTEX> lock(s.m);
    // ids follow attach order, which is racy: order threads by name for reproducible schedules
    std::sort(s.threads.begin(), s.threads.end(), [](Thread* a, Thread* b) { return a->name < b->name; });
    for (size_t i = 0; i < s.threads.size(); ++i) s.threads[i]->id = static_cast<int>(i);
    s.active = true;
    schedule_locked(lock, nullptr, "start");
    s.done_cv.wait(lock, [&s] { return s.done; });
}

inline void yield(const char* where) {
    State& s = st();
    if (!s.active || !self) return;
    std::unique_lock<VMON_REAL_MUTEX> lock(s.m);
    Thread* me = self;
    schedule_locked(lock, me, where);
    if (s.current != me) wait_for_go(lock, me); else me->go = false;
}

inline void block_until(const std::function<bool()>& pred, const char* where) {
    State& s = st();
    if (!s.active || !self) { while (!pred()) std::this_thread::yield(); return; }
    std::unique_lock<VMON_REAL_MUTEX> lock(s.m);
    if (pred()) return;
    Thread* me = self;
    me->blocked_on = pred;
    schedule_locked(lock, me, where);
    if (s.current != me) wait_for_go(lock, me); else me->go = false;
}

inline void finish() {
    State& s = st();
    if (!self) return;
    std::unique_lock<VMON_REAL_MUTEX> lock(s.m);
    self->finished = true;
    if (s.active) schedule_locked(lock, self, "finish");
}

inline void load(const char* path, int bound, long long rng) {
    State& s = st();
    s.bound = bound;
    s.rng = rng;
    if (!path) return;
    FILE* f = std::fopen(path, "r");
    if (!f) return;
    int v;
    while (std::fscanf(f, "%d", &v) == 1) s.prefix.push_back(v);
    std::fclose(f);
}

} // namespace vsched
