"""Drive dznpy's advanced-shell builder from JSON-able encodings (shared by most checks).

cfg encoding:
  {'encapsulee': 'A.B.C', 'filename': 'dir/Model7.dzn', 'suffix': 'Shell',
   'provides': {'sts': SEL, 'mts': SEL}, 'requires': {'sts': SEL, 'mts': SEL},
   'multiclient': None | {'port','claim','reply':[ids],'release'},
   'origin': 'create'|'import', 'copyright': str, 'creator': None|str, 'prefix': None|[ids]}
  SEL = 'ALL' | 'NONE' | 'REMAINING' | [names]
"""
from __future__ import annotations

import json
import os
import re
from typing import Any, Dict, List, Optional

from . import caller
from . import common

SUPPORT_SUFFIXES = ['StrictPort', 'ILog', 'MiscUtils', 'MetaHelpers', 'MultiClientSelector',
                    'MutexWrapped']


def parse_doc(doc: Any):
    """Parse a JSON document (dict or text) with the real parser."""
    from dznpy.json_ast import DznJsonAst  # pylint: disable=import-outside-toplevel
    text = doc if isinstance(doc, (str, bytes)) else json.dumps(doc)
    with common.quiet():
        fc = DznJsonAst(text, verbose=common.verbose_for(text)).process()
        # the script logs what it parsed and derives names from it (vlib.caller)
        caller.after_parse(fc)
    return fc


def ids_of(dotted: str) -> list:
    """Identifier list of a dotted name; the empty name is the empty list."""
    return dotted.split('.') if dotted else []


def encapsulee_name(enc: dict):
    """The encapsulee name in one of the forms the builder accepts: a NamespaceIds, a dotted
    string, a '::'-delimited string or a list of identifiers."""
    from dznpy.scoping import NamespaceIds  # pylint: disable=import-outside-toplevel
    ids = ids_of(enc['encapsulee'])
    form = enc.get('encapsulee_form', 'ids')
    if form == 'dot':
        return '.'.join(ids)
    if form == 'colons':
        return '::'.join(ids)
    if form == 'list':
        return list(ids)
    return NamespaceIds(ids)


def malformed_variant(doc: dict) -> dict:
    """A copy of the document with an interface added to its innermost first namespace whose
    out-event replies bool - something the parser always refuses."""
    bad = json.loads(json.dumps(doc))
    bad_itf = {'<class>': 'interface', 'name': {'<class>': 'scope_name', 'ids': ['QZRefused']},
               'types': {'<class>': 'types', 'elements': []},
               'events': {'<class>': 'events', 'elements': [
                   {'<class>': 'event', 'name': 'qz', 'direction': 'out',
                    'signature': {'<class>': 'signature',
                                  'type_name': {'<class>': 'scope_name', 'ids': ['bool']},
                                  'formals': {'<class>': 'formals', 'elements': []}}}]}}
    where = bad
    while True:
        inner = next((e for e in where.get('elements', []) if isinstance(e, dict)
                      and e.get('<class>') == 'namespace'), None)
        if inner is None:
            break
        where = inner
    where.setdefault('elements', []).append(bad_itf)
    return bad


def parse_after_refusal(text: str, verbose: bool = False):
    """Parse `text` with a parser object that has just refused another document (a variant of
    the same one with a fault deep inside its namespaces) - what a tool does that keeps one
    parser and reports errors per file."""
    import tempfile  # pylint: disable=import-outside-toplevel
    from dznpy.json_ast import DznJsonAst  # pylint: disable=import-outside-toplevel
    parser = DznJsonAst(json.dumps(malformed_variant(json.loads(text))), verbose=verbose)
    try:
        parser.process()
    except Exception:  # pylint: disable=broad-except
        pass
    with tempfile.NamedTemporaryFile('w', suffix='.json', delete=False) as fh:
        fh.write(text)
    try:
        return parser.load_file(fh.name).process()
    finally:
        os.unlink(fh.name)


def make_select(sel, order_seed: Optional[int] = None, pool: Optional[dict] = None,
                names_as: str = 'set'):
    """A PortSelect for the encoded selection.  With `pool`, equal selections share one object
    across configurations - the way a user builds several configurations from the same pieces.
    `names_as`: the container the explicit names arrive in ('set' is what the documentation
    shows; 'frozenset', 'list', 'tuple', 'keys' are what callers also have at hand)."""
    from dznpy.adv_shell import PortSelect, PortWildcard  # pylint: disable=import-outside-toplevel
    if pool is not None:
        key = sel if isinstance(sel, str) else (names_as,) + tuple(sorted(sel))
        if key not in pool:
            pool[key] = make_select(sel, order_seed, None, names_as)
        return pool[key]
    if isinstance(sel, str):
        return PortSelect(getattr(PortWildcard, sel))
    names = list(sel)
    if order_seed is not None:
        import random  # pylint: disable=import-outside-toplevel
        random.Random(order_seed).shuffle(names)
    out = set()
    for name in names:
        out.add(name)
    if names_as == 'frozenset':
        return PortSelect(frozenset(out))
    if names_as == 'list':
        return PortSelect(list(names))
    if names_as == 'tuple':
        return PortSelect(tuple(names))
    if names_as == 'keys':
        return PortSelect(dict.fromkeys(names).keys())
    return PortSelect(out)


STATS: Dict[str, int] = {}      # how configurations were constructed (per process)


def make_ports_cfg(enc: dict, order_seed: Optional[int] = None, pool: Optional[dict] = None):
    """The PortsCfg of an encoding.  Where the encoding has the shape of one of the library's
    preset helpers (all_mts, all_sts, all_sts_all_mts, all_mts_all_sts, all_mts_mixed_ts,
    all_sts_mixed_ts) two of three constructions go through that helper - they are part of the
    configuration language."""
    import zlib  # pylint: disable=import-outside-toplevel
    from dznpy import adv_shell  # pylint: disable=import-outside-toplevel
    from dznpy.adv_shell import PortsCfg, PortsSemanticsCfg, MultiClientPortCfg  # pylint: disable=import-outside-toplevel
    from dznpy.scoping import NamespaceIds  # pylint: disable=import-outside-toplevel
    names_as = enc.get('names_as', 'set')
    mcc = None
    mc = enc.get('multiclient')
    prov, req = enc['provides'], enc['requires']
    # how arguments are passed is the caller's choice: by keyword, or by position in the order
    # the documentation gives (sts before mts; provides, requires, multiclient; port, claim
    # event, granting value, release event)
    positional = zlib.crc32(json.dumps([req, prov, bool(mc), 'style'], sort_keys=True).encode()) % 2 == 1
    if mc and positional:
        mcc = MultiClientPortCfg(mc['port'], mc['claim'], NamespaceIds(list(mc['reply'])),
                                 mc['release'])
    elif mc:
        mcc = MultiClientPortCfg(port_name=mc['port'], claim_event_name=mc['claim'],
                                 claim_granting_reply_value=NamespaceIds(list(mc['reply'])),
                                 release_event_name=mc['release'])
    all_m, all_s = {'sts': 'NONE', 'mts': 'ALL'}, {'sts': 'ALL', 'mts': 'NONE'}
    pick = zlib.crc32(json.dumps([prov, req, bool(mc)], sort_keys=True).encode()) % 3
    preset = None
    if pick != 0:
        if prov == all_m and req == all_m:
            preset = ('all_mts', lambda: adv_shell.all_mts(mcc) if mcc else adv_shell.all_mts())
        elif prov == all_s and req == all_s and not mc:
            preset = ('all_sts', adv_shell.all_sts)
        elif prov == all_s and req == all_m and not mc:
            preset = ('all_sts_all_mts', adv_shell.all_sts_all_mts)
        elif prov == all_m and req == all_s:
            preset = ('all_mts_all_sts',
                      lambda: adv_shell.all_mts_all_sts(mcc) if mcc else adv_shell.all_mts_all_sts())
        elif prov == all_m:
            preset = ('all_mts_mixed_ts', lambda: adv_shell.all_mts_mixed_ts(
                make_select(req['sts'], order_seed, pool, names_as), make_select(req['mts'], order_seed, pool, names_as),
                *([mcc] if mcc else [])))
        elif prov == all_s and not mc:
            preset = ('all_sts_mixed_ts', lambda: adv_shell.all_sts_mixed_ts(
                make_select(req['sts'], order_seed, pool, names_as), make_select(req['mts'], order_seed, pool, names_as)))
    if preset is not None:
        STATS['via_preset_' + preset[0]] = STATS.get('via_preset_' + preset[0], 0) + 1
        return preset[1]()
    STATS['via_constructor'] = STATS.get('via_constructor', 0) + 1
    if positional:
        STATS['via_constructor_positional'] = STATS.get('via_constructor_positional', 0) + 1
        sides = [PortsSemanticsCfg(make_select(enc[side]['sts'], order_seed, pool, names_as),
                                   make_select(enc[side]['mts'], order_seed, pool, names_as))
                 for side in ('provides', 'requires')]
        return PortsCfg(sides[0], sides[1], mcc) if mcc is not None else PortsCfg(sides[0], sides[1])
    return PortsCfg(
        provides=PortsSemanticsCfg(sts=make_select(enc['provides']['sts'], order_seed, pool, names_as),
                                   mts=make_select(enc['provides']['mts'], order_seed, pool, names_as)),
        requires=PortsSemanticsCfg(sts=make_select(enc['requires']['sts'], order_seed, pool, names_as),
                                   mts=make_select(enc['requires']['mts'], order_seed, pool, names_as)),
        multiclient=mcc)


def make_configuration(enc: dict, fc, order_seed: Optional[int] = None,
                       pool: Optional[dict] = None, ports_cfg=None):
    from dznpy.adv_shell import Configuration  # pylint: disable=import-outside-toplevel
    from dznpy.adv_shell.common import FacilitiesOrigin  # pylint: disable=import-outside-toplevel
    from dznpy.scoping import NamespaceIds  # pylint: disable=import-outside-toplevel
    prefix = enc.get('prefix')
    kwargs = dict(
        dezyne_filename=enc.get('filename', 'Model.dzn'), ast_fc=fc,
        output_basename_suffix=enc.get('suffix', 'Shell'),
        fqn_encapsulee_name=encapsulee_name(enc),
        ports_cfg=ports_cfg if ports_cfg is not None else make_ports_cfg(enc, order_seed, pool),
        facilities_origin=FacilitiesOrigin.CREATE if enc.get('origin', 'create') == 'create'
        else FacilitiesOrigin.IMPORT,
        copyright=enc.get('copyright', 'Copyright (c) test'),
        support_files_ns_prefix=None if prefix is None else NamespaceIds(list(prefix)),
        creator_info=enc.get('creator'), verbose=bool(enc.get('verbose', False)))
    # optional settings left at their defaults are left out of the call every other time
    if len(str(enc.get('encapsulee'))) % 2:
        for key, default in (('support_files_ns_prefix', None), ('creator_info', None),
                             ('verbose', False)):
            if kwargs[key] is default or kwargs[key] == default:
                del kwargs[key]
    if len(str(enc.get('filename'))) % 2:
        # the required settings by position, in documented order
        order = ['dezyne_filename', 'ast_fc', 'output_basename_suffix', 'fqn_encapsulee_name',
                 'ports_cfg', 'facilities_origin', 'copyright']
        args = [kwargs.pop(key) for key in order]
        STATS['configuration_positional'] = STATS.get('configuration_positional', 0) + 1
        return Configuration(*args, **kwargs)
    return Configuration(**kwargs)


def build_files(enc: dict, fc, order_seed: Optional[int] = None, builder=None,
                pool: Optional[dict] = None, ports_cfg=None) -> Dict[str, str]:
    """Configure and build (with a fresh Builder unless one is handed in); returns
    [(filename, contents, hash)] in the order returned."""
    from dznpy.adv_shell import Builder  # pylint: disable=import-outside-toplevel
    cfg = make_configuration(enc, fc, order_seed, pool, ports_cfg)
    with common.quiet():
        result = (builder or Builder()).build(cfg)
    files = [(gc.filename, gc.contents, gc.hash) for gc in result.files]
    with common.quiet():
        caller.after_build(result, enc)
    return files


def equivalent_spellings(enc: dict, provides: List[str], requires: List[str]) -> List[dict]:
    """Other ways to write the same STS/MTS assignment: a REMAINING next to an explicit set is
    replaced by the explicit complement."""
    out = []
    for side, names in (('provides', provides), ('requires', requires)):
        sel = enc[side]
        for mine, other in (('sts', 'mts'), ('mts', 'sts')):
            if sel[mine] == 'REMAINING' and isinstance(sel[other], list):
                rest = sorted(set(names) - set(sel[other]))
                if rest and not (side == 'provides'):
                    out.append(dict(enc, **{side: {mine: rest, other: list(sel[other])}}))
    return out


def contrasting_configs(enc: dict) -> List[dict]:
    """Other configurations for the same encapsulee with a different STS/MTS assignment, the
    other facilities origin and another suffix - what a user generates next to this shell from
    the same Builder.  Some may be invalid for the model at hand; they are simply refused."""
    swap = {side: {'sts': enc[side]['mts'], 'mts': enc[side]['sts']}
            for side in ('provides', 'requires')}
    other_origin = 'import' if enc.get('origin', 'create') == 'create' else 'create'
    plain = dict(enc, multiclient=None, suffix=enc.get('suffix', 'Shell') + 'Other')
    return [dict(plain, **swap),
            dict(plain, provides={'sts': 'NONE', 'mts': 'ALL'}, requires={'sts': 'ALL', 'mts': 'NONE'},
                 origin=other_origin),
            dict(plain, provides={'sts': 'ALL', 'mts': 'NONE'}, requires={'sts': 'NONE', 'mts': 'ALL'}),
            dict(enc, **swap),
            # last: the same shell with the other facilities origin (outcome() edits the
            # Configuration object of the last warm-up in place)
            dict(enc, origin=other_origin)]


def revisions_of(doc: dict) -> List[dict]:
    """Two other revisions of a document: every name as it is, every interface with two or more
    events short of its last event (first revision) or its first event (second revision) - an
    earlier state of the same project, or another product variant of it."""
    out = []
    for which in (-1, 0):
        rev = json.loads(json.dumps(doc))

        def walk(node):
            if isinstance(node, dict):
                if node.get('<class>') == 'interface':
                    events = (node.get('events') or {}).get('elements')
                    if isinstance(events, list) and len(events) >= 2:
                        del events[which]
                for val in node.values():
                    walk(val)
            elif isinstance(node, list):
                for val in node:
                    walk(val)
        walk(rev)
        out.append(rev)
    return out


def build_siblings(enc: dict, siblings: Optional[List[Any]]):
    """Parse and build other revisions of the same project (same names, other contents) in the
    same process, each with a Builder of its own: what a tool that walks over product variants
    or re-generates after an edit did before it came to this model.  Refusals are fine."""
    from dznpy.adv_shell import Builder  # pylint: disable=import-outside-toplevel
    for sib in siblings or []:
        try:
            sib_fc = parse_doc(sib)
            build_files(dict(enc, multiclient=None), sib_fc, builder=Builder())
            build_files(enc, sib_fc, builder=Builder())
            STATS['sibling_revisions_built'] = STATS.get('sibling_revisions_built', 0) + 1
        except Exception:  # pylint: disable=broad-except
            STATS['sibling_revisions_refused'] = STATS.get('sibling_revisions_refused', 0) + 1


def decoy_encapsulees(enc: dict, fc) -> List[str]:
    """Other components and systems of the same parsed model (dotted names)."""
    mine = enc['encapsulee']
    names = []
    for decl in list(getattr(fc, 'components', [])) + list(getattr(fc, 'systems', [])):
        dotted = '.'.join(decl.fqn.items)
        if dotted != mine and dotted not in names:
            names.append(dotted)
    return names[:2]


def outcome(enc: dict, doc: Any, fc=None, warmups: Optional[List[dict]] = None,
            siblings: Optional[List[Any]] = None) -> Dict[str, Any]:
    """{'files': [(name, contents, hash)...]} or {'exc': classification}.  `warmups` are
    configurations built first in the same process from shared PortSelect objects and one
    shared Builder - a history that must not influence the result.  The last warm-up is built
    from a Configuration object that is then edited in place into the configuration asked for
    (a script that generates several shells from one configuration object); the ports
    configuration object of the target is first used for the other components of the model (one
    rule looped over all components).  `siblings` are other revisions of the document, parsed
    and built after the target was parsed and before it is built."""
    try:
        fc = fc if fc is not None else parse_doc(doc)
        build_siblings(enc, siblings)
        if warmups:
            import dataclasses  # pylint: disable=import-outside-toplevel
            from dznpy.adv_shell import Builder  # pylint: disable=import-outside-toplevel
            pool, builder = {}, Builder()
            for warm in warmups[:-1]:
                try:
                    build_files(warm, fc, builder=builder, pool=pool)
                except Exception:  # pylint: disable=broad-except
                    pass
            cfg = make_configuration(warmups[-1], fc, pool=pool)
            try:
                with common.quiet():
                    caller.after_build(builder.build(cfg), warmups[-1])
            except Exception:  # pylint: disable=broad-except
                pass
            wanted = make_configuration(enc, fc, pool=pool)
            for other in decoy_encapsulees(enc, fc):
                decoy = make_configuration(dict(enc, encapsulee=other, encapsulee_form='ids'), fc,
                                           pool=pool)
                decoy.ports_cfg = wanted.ports_cfg
                try:
                    with common.quiet():
                        caller.after_build(builder.build(decoy), enc)
                except Exception:  # pylint: disable=broad-except
                    pass
                STATS['ports_cfg_object_used_for_another_component_first'] = \
                    STATS.get('ports_cfg_object_used_for_another_component_first', 0) + 1
            for fld in dataclasses.fields(wanted):
                setattr(cfg, fld.name, getattr(wanted, fld.name))
            with common.quiet():
                result = builder.build(cfg)
            files = [(gc.filename, gc.contents, gc.hash) for gc in result.files]
            with common.quiet():
                caller.after_build(result, enc)
            return {'files': files}
        return {'files': build_files(enc, fc)}
    except Exception as exc:  # pylint: disable=broad-except
        return {'exc': common.classify_exception(exc)}


def basename(enc: dict) -> str:
    return os.path.splitext(os.path.basename(enc.get('filename', 'Model.dzn')))[0]


def shell_name(enc: dict) -> str:
    return basename(enc) + enc.get('suffix', 'Shell')


def shell_class(enc: dict, header_text: Optional[str] = None) -> str:
    """Name of the shell struct.  It is the output base name where that is a C++ identifier;
    for a model file name such as my-model.dzn the library has to derive one, and which one is
    its business - it is read from the emitted header then."""
    name = shell_name(enc)
    if re.fullmatch(r'[A-Za-z_][A-Za-z0-9_]*', name) or header_text is None:
        return name
    found = re.search(r'^\s*struct\s+([A-Za-z_][A-Za-z0-9_]*)\s*$', header_text, re.M)
    return found.group(1) if found else name


def file_prefix(enc: dict) -> str:
    prefix = enc.get('prefix')
    return '_'.join(list(prefix or []) + ['Dzn'])


def expected_filenames(enc: dict) -> List[str]:
    return [shell_name(enc) + '.hh', shell_name(enc) + '.cc'] + \
        [f'{file_prefix(enc)}_{s}.hh' for s in SUPPORT_SUFFIXES]


ACCESSOR_RE = re.compile(
    r'^\s*(?P<type>\S+)<(?P<itf>[^>]+)>\s+(?P<dir>Provides|Requires)(?P<mc>MultiClient)?'
    r'(?P<cap>\w+)\((?P<args>[^)]*)\);\s*$')


def accessors_in_header(header_text: str) -> List[Dict[str, str]]:
    """Port accessors declared in the public part of the shell header (textual extraction)."""
    out = []
    for line in header_text.splitlines():
        m = ACCESSOR_RE.match(line)
        if m and (m.group('type').endswith('::Sts') or m.group('type').endswith('::Mts')):
            out.append({'semantics': m.group('type').rsplit('::', 1)[1].upper(),
                        'type': m.group('type'), 'itf': m.group('itf'),
                        'direction': m.group('dir'), 'multiclient': bool(m.group('mc')),
                        'cap': m.group('cap')})
    return out


def cap(name: str) -> str:
    return name[0].upper() + name[1:]
