"""The surroundings of the library as a workload dimension (round 10).

Everything a check does in its own interpreter runs under one set of surroundings: a plain
`python`, default warning filters, a UTF-8 locale, logging at its defaults, the check's working
directory.  Real users vary all of that.  `run_chunk` therefore evaluates a worker function on a
chunk of items inside a *child interpreter* whose surroundings differ in every respect at once:

    python -O                      assert statements vanish
    warnings.simplefilter('error') every warning the library raises is an exception
    LC_ALL=C, PYTHONUTF8=0,        the default text encoding (files opened without `encoding=`,
      PYTHONCOERCECLOCALE=0          stdout/stderr pipes) is ASCII, not UTF-8
    logging at DEBUG               every `LOG.debug(...)` argument is evaluated
    another working directory      an empty scratch directory

What the library answers may not depend on any of them, so the worker's own oracle decides; the
only thing added here is the field `surroundings` in every case a violation reports, so that a
replay runs where the violation was seen.  (One combined set instead of one child per condition:
half of every workload runs in it, and a condition that matters alone matters in the combination
too, unless another one masks it - the thorough tiers additionally rotate the single ones.)
A child that dies or hangs makes the items *harness errors* (inconclusive), never violations.
"""
from __future__ import annotations

import os
import pickle
import subprocess
import sys
import tempfile
from typing import Any, Callable, List

HERE = os.path.dirname(os.path.dirname(os.path.abspath(__file__)))
C_LOCALE = {'LC_ALL': 'C', 'LANG': 'C', 'LANGUAGE': 'C', 'PYTHONUTF8': '0',
            'PYTHONCOERCECLOCALE': '0'}
SETS = {
    'all-at-once': {'flags': ['-O'], 'env': C_LOCALE, 'setup': ['warnings', 'logging', 'cwd']},
    'optimised': {'flags': ['-O'], 'env': {}, 'setup': []},
    'warnings-are-errors': {'flags': [], 'env': {}, 'setup': ['warnings']},
    'c-locale': {'flags': [], 'env': C_LOCALE, 'setup': []},
    'debug-logging': {'flags': [], 'env': {}, 'setup': ['logging']},
}
SINGLES = ['optimised', 'warnings-are-errors', 'c-locale', 'debug-logging']
CURRENT = os.environ.get('VERIF_SURROUNDINGS', '')      # set inside a child


def name_for(chunk_no: int, tier: str) -> str:
    """Which surroundings chunk number `chunk_no` runs in ('' = the check's own interpreter)."""
    if chunk_no % 2 == 0:
        return ''
    if tier == 'thorough' and chunk_no % 4 == 3:
        return SINGLES[(chunk_no // 4) % len(SINGLES)]
    return 'all-at-once'


def run_chunk(name: str, func: Callable, chunk: List[Any], timeout: float = 3600) -> List[Any]:
    """[func(item) for item in chunk], computed in a child interpreter under `name`."""
    spec = SETS[name]
    tmp = tempfile.mkdtemp(prefix='dznpy-verif-surr-')
    try:
        job, out = os.path.join(tmp, 'job.pickle'), os.path.join(tmp, 'out.pickle')
        with open(job, 'wb') as fh:
            pickle.dump({'module': func.__module__, 'name': func.__qualname__, 'items': chunk,
                         'setup': spec['setup'], 'cwd': os.path.join(tmp, 'cwd')}, fh)
        env = dict(os.environ)
        env.pop('PYTHONIOENCODING', None)
        env.update(spec['env'])
        env.update({'VERIF_SURROUNDINGS': name, 'PYTHONHASHSEED': '0', 'VERIF_SERIAL': '1',
                    'PYTHONDONTWRITEBYTECODE': '1'})
        cmd = [sys.executable] + spec['flags'] + [os.path.join(HERE, 'vlib', 'surr_child.py'),
                                                  job, out]
        try:
            proc = subprocess.run(cmd, env=env, stdout=subprocess.PIPE, stderr=subprocess.PIPE,
                                  timeout=timeout, check=False)
        except subprocess.TimeoutExpired:
            return [{'harness_error': f'surroundings child ({name}) hung'} for _ in chunk]
        if not os.path.exists(out):
            tail = proc.stderr.decode('utf-8', 'replace')[-600:]
            return [{'harness_error': f'surroundings child ({name}) exit {proc.returncode}: {tail}'}
                    for _ in chunk]
        with open(out, 'rb') as fh:
            results = pickle.load(fh)
    finally:
        import shutil  # pylint: disable=import-outside-toplevel
        shutil.rmtree(tmp, ignore_errors=True)
    for res in results:
        tag(res, name)
    return results


def tag(res: Any, name: str):
    """Record the surroundings in every case a result reports (for the replay)."""
    if not isinstance(res, dict):
        return
    res.setdefault('counts', {})
    if isinstance(res['counts'], dict):
        key = f'evaluated_in_surroundings_{name}'
        res['counts'][key] = res['counts'].get(key, 0) + 1
    for viol in res.get('violations', []) or []:
        if isinstance(viol, dict) and isinstance(viol.get('case'), dict):
            viol['case'].setdefault('surroundings', name)
        if isinstance(viol, dict) and isinstance(viol.get('detail'), dict):
            viol['detail'].setdefault('surroundings', name)
