"""Reference semantics of the port configuration language (C02, C03, C13), three-valued.

A selection is 'ALL' | 'NONE' | 'REMAINING' | [names...].  Written from the sentences of
property C03; everything the statement leaves open is UNSPECIFIED and accepts any outcome
that is not an internal error.
"""
from __future__ import annotations

from typing import Dict, List, Optional, Tuple

ACCEPT, REJECT, UNSPECIFIED = 'accept', 'reject', 'unspecified'
WILDCARDS = ('ALL', 'NONE', 'REMAINING')


def _names(sel) -> List[str]:
    return list(sel) if isinstance(sel, list) else []


def _nonempty(sel) -> bool:
    return isinstance(sel, list) or sel in ('ALL', 'REMAINING')


def side(sts, mts, ports: List[str], other_known: List[str], other_side: List[str] = ()):
    """Judge one side.  `ports` are the exposed port names of this side, `other_known` the
    injected ports (the component has them, they are never exposed: naming one is left open),
    `other_side` the exposed ports of the other direction (a provides selection that names a
    requires port names a provides port the component does not have).
    Returns (verdict, reason, mapping)."""
    unspecified: Optional[str] = None
    for sel in (sts, mts):
        if isinstance(sel, list) and (not sel or '' in sel):
            unspecified = unspecified or 'empty set or empty name (outside the quantifier)'
    explicit = _names(sts) + _names(mts)
    for name in explicit:
        if name == '':
            continue
        if name not in ports:
            if name in other_side:
                return REJECT, f'names a port the component has on the other side only: {name}', None
            if name in other_known:
                unspecified = unspecified or 'name matches only an injected port'
            else:
                return REJECT, f'names a port the component does not have: {name}', None
    overlap = set(_names(sts)) & set(_names(mts))
    if overlap:
        return REJECT, f'port named under both semantics: {sorted(overlap)}', None
    if (sts == 'ALL' and mts != 'NONE') or (mts == 'ALL' and sts != 'NONE'):
        return REJECT, "'all' combined with something other than 'none'", None
    if sts == mts and sts in ('REMAINING', 'NONE'):
        # same wildcard twice: the statement does not say; but an uncovered port still must
        # be rejected
        if sts == 'NONE' and ports:
            return REJECT, 'exposed port without semantics', None
        return UNSPECIFIED, f'{sts} given for both semantics', None
    mapping: Dict[str, str] = {}
    for port in ports:
        if port in _names(sts):
            mapping[port] = 'STS'
        elif port in _names(mts):
            mapping[port] = 'MTS'
        elif sts in ('ALL', 'REMAINING'):
            mapping[port] = 'STS'
        elif mts in ('ALL', 'REMAINING'):
            mapping[port] = 'MTS'
        else:
            return REJECT, f'exposed port without semantics: {port}', None
    if unspecified:
        return UNSPECIFIED, unspecified, mapping
    return ACCEPT, '', mapping


def judge(provides_sel: dict, requires_sel: dict, provides: List[str], requires: List[str],
          injected: List[str]) -> Tuple[str, str, Optional[Dict[str, str]]]:
    """Judge a whole ports configuration against a component's port names."""
    pv, preason, pmap = side(provides_sel['sts'], provides_sel['mts'], provides,
                             injected, requires)
    rv, rreason, rmap = side(requires_sel['sts'], requires_sel['mts'], requires,
                             injected, provides)
    if pv == REJECT:
        return REJECT, 'provides: ' + preason, None
    if rv == REJECT:
        return REJECT, 'requires: ' + rreason, None
    # mixing semantics among provides ports
    if pmap is not None and len(set(pmap.values())) > 1:
        return REJECT, 'provides: mixes semantics among provides ports', None
    # whether such a configuration is accepted may be open; what an accepted one means is not:
    # every exposed port gets the semantics it is named under or covered by
    mapping = None
    if pmap is not None and rmap is not None:
        mapping = dict(pmap)
        mapping.update(rmap)
    if pv == UNSPECIFIED:
        return UNSPECIFIED, 'provides: ' + preason, mapping
    if rv == UNSPECIFIED:
        return UNSPECIFIED, 'requires: ' + rreason, mapping
    if _nonempty(provides_sel['sts']) and _nonempty(provides_sel['mts']):
        # both selections given although the effective assignment is uniform (e.g. a set plus
        # 'remaining' with nothing remaining): the statement only forbids actual mixing
        return UNSPECIFIED, 'provides: both selections non-empty, effective assignment uniform', \
            mapping
    return ACCEPT, '', mapping
