"""Shared run-time framework of the dznpy monitors: verdicts, evidence, replay, known findings.

Every check is `./check <ID> --tier quick|thorough` (see /verif/check).  A check creates one
`Run`, feeds it observations and violations and ends with `run.finish()`, which writes
/verif/evidence/<id>.json and returns the process exit code:

    0  held on everything observed (KNOWN-FINDING lines possible)
    1  violated  (one `VIOLATION property=<id> replay=<path>` line per distinct witness class)
    2  inconclusive (`INCONCLUSIVE property=<id> reason=...`), never on the unchanged tree
"""
from __future__ import annotations

import concurrent.futures as cf
import hashlib
import json
import multiprocessing
import os
import random
import re
import shutil
import sys
import tempfile
import time
import traceback
from typing import Any, Callable, Dict, Iterable, List, Optional

VERIF = os.path.dirname(os.path.dirname(os.path.abspath(__file__)))
DZNPY_SRC = os.environ.get('DZNPY_SRC', '/repo/src')
NCPU = int(os.environ.get('VERIF_JOBS', str(os.cpu_count() or 4)))

EXIT_HELD, EXIT_VIOLATED, EXIT_INCONCLUSIVE = 0, 1, 2


class Inconclusive(Exception):
    """The run cannot decide (monitor never reached, wrong dznpy imported, tool missing)."""


def import_dznpy():
    """Import dznpy from the working tree (DZNPY_SRC), never from site-packages."""
    src = os.path.realpath(DZNPY_SRC)
    if sys.path[0] != src:
        sys.path.insert(0, src)
    for name in list(sys.modules):
        if name == 'dznpy' or name.startswith('dznpy.'):
            mod_file = getattr(sys.modules[name], '__file__', '') or ''
            if not os.path.realpath(mod_file).startswith(src):
                del sys.modules[name]
    import dznpy  # pylint: disable=import-outside-toplevel
    where = os.path.realpath(dznpy.__file__)
    if not where.startswith(src + os.sep):
        raise Inconclusive(f'dznpy imported from {where}, not from {src}')
    return dznpy


def digest(obj: Any) -> str:
    """Stable short digest of a JSON-able object."""
    data = json.dumps(obj, sort_keys=True, default=repr, ensure_ascii=True)
    return hashlib.sha256(data.encode()).hexdigest()[:16]


def jsonable(obj: Any) -> Any:
    """Best-effort conversion to something json.dump accepts."""
    if obj is None or isinstance(obj, (bool, int, float, str)):
        return obj
    if isinstance(obj, (list, tuple)):
        return [jsonable(x) for x in obj]
    if isinstance(obj, (set, frozenset)):
        return sorted((jsonable(x) for x in obj), key=repr)
    if isinstance(obj, dict):
        return {str(k): jsonable(v) for k, v in obj.items()}
    if isinstance(obj, bytes):
        return obj.decode('utf-8', 'backslashreplace')
    return repr(obj)


# ---------------------------------------------------------------------------------------------
# known findings
# ---------------------------------------------------------------------------------------------

def load_known_findings() -> List[dict]:
    path = os.path.join(VERIF, 'known_findings.json')
    if not os.path.exists(path):
        return []
    with open(path, encoding='utf-8') as fh:
        data = json.load(fh)
    return data.get('findings', [])


def finding_matches(entry: dict, prop: str, mechanism: str, detail: dict) -> bool:
    """A `known` entry matches a witness by mechanism (regex, full match) and by every
    key of `where` (regex full match on str(detail[key])).  `fixed` entries match nothing."""
    if entry.get('status') != 'known' or entry.get('property') != prop:
        return False
    if not re.fullmatch(entry['mechanism'], mechanism):
        return False
    for key, pattern in (entry.get('where') or {}).items():
        if key not in detail or not re.fullmatch(pattern, str(detail[key]), re.S):
            return False
    return True


# ---------------------------------------------------------------------------------------------
# the run
# ---------------------------------------------------------------------------------------------

class Run:
    """State of one check run."""

    def __init__(self, prop: str, tier: str, level: str = 'exploration',
                 seed: Optional[int] = None):
        self.prop = prop
        self.tier = tier
        self.level = level
        self.seed = int(os.environ.get('VERIF_SEED', '0')) if seed is None else seed
        self.t0 = time.time()
        self.evaluations = 0
        self.nontrivial: set = set()
        self.samples: List[Any] = []
        self.max_samples = 4
        self.observed: Dict[str, Any] = {}
        self.violation_classes: Dict[str, dict] = {}   # class key -> record
        self.known_hits: Dict[str, dict] = {}
        self.n_violations = 0
        self.inconclusive: List[str] = []
        self.known = load_known_findings()
        self.replay_root = os.path.join(os.environ.get('VERIF_REPLAY_DIR') or
                                        os.path.join(VERIF, 'replay'), prop)
        self.max_replays_per_class = 2
        self.required_counters: List[str] = []
        self.extra: Dict[str, Any] = {}
        self._scratch: Optional[str] = None

    # -- helpers ------------------------------------------------------------------------------
    def rng(self, stream: Any = 0) -> random.Random:
        return random.Random(f'{self.prop}:{self.seed}:{stream}')

    def scratch(self) -> str:
        if self._scratch is None:
            self._scratch = tempfile.mkdtemp(prefix=f'dznpy-verif-{self.prop}-')
        return self._scratch

    def count(self, key: str, n: int = 1):
        self.observed[key] = self.observed.get(key, 0) + n

    def merge_counts(self, counts: Dict[str, int]):
        for key, val in (counts or {}).items():
            if isinstance(val, (int, float)):
                self.observed[key] = self.observed.get(key, 0) + val
            elif isinstance(val, list):
                cur = self.observed.setdefault(key, [])
                for item in val:
                    if item not in cur and len(cur) < 200:
                        cur.append(item)

    def require(self, *counters: str):
        """Counters that must be non-zero at the end, else the run is inconclusive."""
        self.required_counters.extend(counters)

    def case(self, case_digest: str, nontrivial: bool, sample: Any = None):
        self.evaluations += 1
        if nontrivial:
            self.nontrivial.add(case_digest)
        if sample is not None and len(self.samples) < self.max_samples:
            self.samples.append(jsonable(sample))

    def mark_inconclusive(self, reason: str):
        if reason not in self.inconclusive:
            self.inconclusive.append(reason)

    # -- violations ---------------------------------------------------------------------------
    def violation(self, mechanism: str, detail: Optional[dict] = None, case: Any = None,
                  files: Optional[Dict[str, str]] = None, klass: Optional[str] = None):
        """Record a witness.  `mechanism` is a tag computed from the witness (what broke, how);
        `detail` holds the facts the known-findings predicates look at and a human reads;
        `case` is the JSON-able input that replays it; `files` are extra artefacts."""
        detail = detail or {}
        for entry in self.known:
            if finding_matches(entry, self.prop, mechanism, detail):
                key = entry.get('id') or entry['mechanism']
                rec = self.known_hits.setdefault(key, {'entry': entry, 'count': 0,
                                                       'example': jsonable(detail)})
                rec['count'] += 1
                return
        self.n_violations += 1
        key = klass or mechanism
        rec = self.violation_classes.get(key)
        if rec is None:
            rec = {'mechanism': mechanism, 'count': 0, 'replays': [], 'detail': jsonable(detail)}
            self.violation_classes[key] = rec
        rec['count'] += 1
        if len(rec['replays']) < self.max_replays_per_class:
            rec['replays'].append(self._write_replay(mechanism, detail, case, files))

    def _write_replay(self, mechanism, detail, case, files) -> str:
        body = {'property': self.prop, 'mechanism': mechanism, 'detail': jsonable(detail),
                'case': jsonable(case), 'seed': self.seed, 'tier': self.tier,
                'replay_cmd': f'./check {self.prop} --replay <this directory>'}
        dig = digest(body)
        path = os.path.join(self.replay_root, dig)
        os.makedirs(path, exist_ok=True)
        with open(os.path.join(path, 'replay.json'), 'w', encoding='utf-8') as fh:
            json.dump(body, fh, indent=1, ensure_ascii=False)
        for name, content in (files or {}).items():
            safe = name.replace('/', '_')
            with open(os.path.join(path, safe), 'w', encoding='utf-8',
                      errors='backslashreplace') as fh:
                fh.write(content if isinstance(content, str) else json.dumps(jsonable(content)))
        return path

    # -- parallel map -------------------------------------------------------------------------
    def pmap(self, func: Callable, items: Iterable, chunksize: int = 1,
             workers: Optional[int] = None, timeout: Optional[float] = None,
             surround: bool = True):
        """Map `func` over items in forked worker processes, yielding (item, result).
        A dying or hanging worker makes the run inconclusive, it never hangs the driver.
        With `surround`, every other chunk is evaluated in a child interpreter whose
        surroundings differ from this one's (vlib.surroundings)."""
        from . import surroundings  # pylint: disable=import-outside-toplevel
        items = list(items)
        workers = min(workers or NCPU, max(1, len(items)))
        chunks = [items[i:i + chunksize] for i in range(0, len(items), chunksize)]
        if surroundings.CURRENT or os.environ.get('VERIF_NO_SURROUNDINGS'):
            surround = False
        where = [surroundings.name_for(no, self.tier) if surround else ''
                 for no in range(len(chunks))]
        if workers <= 1 or os.environ.get('VERIF_SERIAL'):
            for chunk, name in zip(chunks, where):
                res = surroundings.run_chunk(name, func, chunk) if name else \
                    [func(item) for item in chunk]
                if name:
                    self.count(f'work_items_evaluated_in_a_child_interpreter_with_surroundings_{name}',
                               len(chunk))
                for item, out in zip(chunk, res):
                    yield item, out
            return
        ctx = multiprocessing.get_context('fork')
        with cf.ProcessPoolExecutor(max_workers=workers, mp_context=ctx) as pool:
            futs = [pool.submit(surroundings.run_chunk, name, func, chunk) if name else
                    pool.submit(_run_chunk, func, chunk) for chunk, name in zip(chunks, where)]
            try:
                for chunk, fut, name in zip(chunks, futs, where):
                    res = fut.result(timeout=timeout)
                    if name:
                        self.count(f'work_items_evaluated_in_a_child_interpreter_with_surroundings_{name}',
                                   len(chunk))
                    for item, out in zip(chunk, res):
                        yield item, out
            except cf.TimeoutError:
                self.mark_inconclusive('worker watchdog fired')
                for proc in list(getattr(pool, '_processes', {}).values()):
                    proc.kill()
            except cf.process.BrokenProcessPool:
                self.mark_inconclusive('worker process died')

    # -- finish -------------------------------------------------------------------------------
    def finish(self, rule: str, assumptions: Optional[List[str]] = None,
               exhaustive: Optional[bool] = None, min_nontrivial: int = 2) -> int:
        for name in self.required_counters:
            if not self.observed.get(name):
                self.mark_inconclusive(f'deciding monitor never observed: {name}')
        if len(self.nontrivial) < min_nontrivial:
            self.mark_inconclusive(f'only {len(self.nontrivial)} distinct non-trivial cases')
        if not self.samples:
            self.mark_inconclusive('no sample recorded')

        coverage = {
            'evaluations': self.evaluations,
            'distinct_nontrivial': len(self.nontrivial),
            'rule': rule,
            'samples': self.samples,
            'observed': jsonable(self.observed),
        }
        if exhaustive is not None:
            coverage['exhaustive'] = exhaustive
        coverage.update(jsonable(self.extra))
        verdict = 'held'
        if self.violation_classes:
            verdict = 'violated'
        elif self.inconclusive:
            verdict = 'inconclusive'
        coverage['verdict'] = verdict
        coverage['known_findings_hit'] = {k: v['count'] for k, v in self.known_hits.items()}
        coverage['violation_classes'] = {k: {'count': v['count'], 'replays': v['replays'],
                                             'detail': v['detail']}
                                         for k, v in self.violation_classes.items()}
        if self.inconclusive:
            coverage['inconclusive_reasons'] = self.inconclusive
        evidence = {
            'property_id': self.prop,
            'tier': self.tier if self.tier in ('quick', 'thorough') else 'quick',
            'seed': self.seed,
            'level': self.level,
            'coverage': coverage,
            'assumptions': assumptions or [],
            'wall_s': round(time.time() - self.t0, 2),
            'violations': self.n_violations,
        }
        evdir = os.environ.get('VERIF_EVIDENCE_DIR') or os.path.join(VERIF, 'evidence')
        os.makedirs(evdir, exist_ok=True)
        tmp = os.path.join(evdir, f'.{self.prop}.json.tmp')
        with open(tmp, 'w', encoding='utf-8') as fh:
            json.dump(evidence, fh, indent=1, ensure_ascii=False)
        os.replace(tmp, os.path.join(evdir, f'{self.prop}.json'))
        if self._scratch and not os.environ.get('VERIF_KEEP'):
            shutil.rmtree(self._scratch, ignore_errors=True)

        for key, rec in self.known_hits.items():
            what = rec['entry'].get('what', key)
            print(f'KNOWN-FINDING: property={self.prop} {what} [{rec["count"]} witness(es)]')
        for key, rec in self.violation_classes.items():
            for path in rec['replays'][:1]:
                print(f'VIOLATION property={self.prop} replay={path}')
            print(f'  class={key} count={rec["count"]} detail='
                  f'{json.dumps(rec["detail"], ensure_ascii=True)[:600]}')
        if verdict == 'inconclusive':
            for reason in self.inconclusive:
                print(f'INCONCLUSIVE property={self.prop} reason={reason}')
        print(f'{self.prop} {self.tier} seed={self.seed}: {verdict}; evaluations='
              f'{self.evaluations} distinct_nontrivial={len(self.nontrivial)} '
              f'violations={self.n_violations} wall={evidence["wall_s"]}s')
        return {'held': EXIT_HELD, 'violated': EXIT_VIOLATED,
                'inconclusive': EXIT_INCONCLUSIVE}[verdict]


def _run_chunk(func, chunk):
    out = []
    for item in chunk:
        try:
            out.append(func(item))
        except Exception:  # pylint: disable=broad-except
            out.append({'harness_error': traceback.format_exc()})
    return out


# ---------------------------------------------------------------------------------------------
# exception classification (DESIGN 2.3)
# ---------------------------------------------------------------------------------------------

def verbose_for(text) -> bool:
    """The parser's `verbose` switch is an input like any other: on for a quarter of the
    documents, chosen by their contents so that a replay makes the same choice."""
    import zlib  # pylint: disable=import-outside-toplevel
    data = text if isinstance(text, bytes) else str(text).encode('utf-8', 'replace')
    return zlib.crc32(data) % 4 == 0


LIBRARY_ERRORS = ('AdvShellError', 'MultiClientCfgError', 'FindError', 'DznJsonError',
                  'NamespaceIdsTypeError', 'CppGenError')


def classify_exception(exc: BaseException) -> Dict[str, Any]:
    """LIBRARY / DIAGNOSED_BUILTIN / INTERNAL, plus where it was raised."""
    src = os.path.realpath(DZNPY_SRC)
    tb = exc.__traceback__
    frames = traceback.extract_tb(tb)
    inner = frames[-1] if frames else None
    name = type(exc).__name__
    mro = [c.__name__ for c in type(exc).__mro__]
    where = f'{os.path.basename(inner.filename)}:{inner.name}' if inner else '?'
    info = {'type': name, 'where': where, 'message': str(exc)[:300]}
    if any(n in LIBRARY_ERRORS for n in mro):
        info['class'] = 'LIBRARY'
    elif name in ('TypeError', 'ValueError') and inner is not None \
            and os.path.realpath(inner.filename).startswith(src) \
            and (inner.line or '').lstrip().startswith('raise '):
        info['class'] = 'DIAGNOSED_BUILTIN'
    else:
        info['class'] = 'INTERNAL'
    if info['class'] != 'LIBRARY' and not str(exc).strip() and info['class'] != 'INTERNAL':
        info['class'] = 'INTERNAL'
    return info


# ---------------------------------------------------------------------------------------------
# structural diff and generic replay
# ---------------------------------------------------------------------------------------------

def first_diff(expected: Any, got: Any, path: str = '') -> Optional[Dict[str, Any]]:
    """First difference between two JSON-like structures: {'path', 'kind', 'expected', 'got'}."""
    if type(expected) is not type(got) and not (
            isinstance(expected, (int, float)) and isinstance(got, (int, float))
            and not isinstance(expected, bool) and not isinstance(got, bool)):
        return {'path': path, 'kind': 'type', 'expected': jsonable(expected),
                'got': jsonable(got)}
    if isinstance(expected, dict):
        for key in expected:
            if key not in got:
                return {'path': f'{path}.{key}', 'kind': 'missing-key',
                        'expected': jsonable(expected[key]), 'got': None}
        for key in got:
            if key not in expected:
                return {'path': f'{path}.{key}', 'kind': 'extra-key', 'expected': None,
                        'got': jsonable(got[key])}
        for key in expected:
            sub = first_diff(expected[key], got[key], f'{path}.{key}')
            if sub:
                return sub
        return None
    if isinstance(expected, list):
        if len(expected) != len(got):
            kind = 'missing-entry' if len(got) < len(expected) else 'extra-entry'
            if sorted(map(repr, expected)) == sorted(map(repr, got)):
                kind = 'reordered'
            return {'path': path, 'kind': kind, 'expected': jsonable(expected)[:6],
                    'got': jsonable(got)[:6], 'len_expected': len(expected),
                    'len_got': len(got)}
        for idx, (a, b) in enumerate(zip(expected, got)):
            sub = first_diff(a, b, f'{path}[{idx}]')
            if sub:
                if sorted(map(repr, expected)) == sorted(map(repr, got)):
                    sub = dict(sub, kind='reordered')
                return sub
        return None
    if expected != got:
        return {'path': path, 'kind': 'value', 'expected': jsonable(expected),
                'got': jsonable(got)}
    return None


def strip_indices(path: str) -> str:
    """`.enums[3].fqn` -> `.enums[].fqn` (mechanism tags must not depend on positions)."""
    return re.sub(r'\[\d+\]', '[]', path)


def generic_replay(prop: str, eval_case: Callable[[Any], dict], replay_dir: str) -> int:
    """Re-evaluate the stored case of a replay directory and print what it yields."""
    with open(os.path.join(replay_dir, 'replay.json'), encoding='utf-8') as fh:
        body = json.load(fh)
    where = body['case'].get('surroundings') if isinstance(body['case'], dict) else None
    if where:
        from . import surroundings  # pylint: disable=import-outside-toplevel
        print(f'(evaluated in a child interpreter, surroundings: {where})')
        res = surroundings.run_chunk(where, eval_case, [body['case']])[0]
    else:
        res = eval_case(body['case'])
    viols = res.get('violations', [])
    print(json.dumps(jsonable(res), indent=1)[:4000])
    if viols:
        print(f'VIOLATION property={prop} replay={replay_dir}')
        return EXIT_VIOLATED
    return EXIT_HELD


def absorb(run: 'Run', case: Any, res: dict):
    """Fold one worker result into the run (shared shape of all eval_case functions):
    {'digest','nontrivial','sample','counts',{violations:[{mechanism,detail,files,klass}]}}"""
    if 'harness_error' in res:
        run.mark_inconclusive('harness error: ' + res['harness_error'][-400:])
        return
    run.case(res.get('digest', digest(case)), bool(res.get('nontrivial')), res.get('sample'))
    run.merge_counts(res.get('counts'))
    for v in res.get('violations', []):
        run.violation(v['mechanism'], v.get('detail'), v.get('case', case), v.get('files'),
                      v.get('klass'))


_DERIVED: Dict[Any, Any] = {}


def derived(cls):
    """A caller's own subclass of a library class: it adds a helper method and changes nothing
    (a project's convenience wrapper).  What the library does with an instance may not depend
    on the name of its type."""
    if cls not in _DERIVED:
        _DERIVED[cls] = type('Project' + cls.__name__ + 'Helper', (cls,),
                             {'describe': lambda self: f'<{type(self).__name__}>'})
    return _DERIVED[cls]


class quiet:
    """Silence dznpy's own print() calls (parse_types/log) inside worker code."""

    def __enter__(self):
        self._saved = sys.stdout
        sys.stdout = open(os.devnull, 'w')  # pylint: disable=consider-using-with
        return self

    def __exit__(self, *exc):
        sys.stdout.close()
        sys.stdout = self._saved
        return False
