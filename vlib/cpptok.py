"""A small C++ token scanner and signature reader for the text dznpy.cpp_gen can emit.

Independent of dznpy: it only reads text.  `scan()` yields tokens (identifiers, numbers,
string/char literals, comments, punctuation incl. '::'), `parse_signature()` reads
    [virtual|static|explicit ...] [return type] [Owner::][~]name(params) [cav] [override] [= init] tail
and `parse_type()` reads  [const] [::]A::B[<[::]C::D>][&|*].
"""
from typing import Any, Dict, List, Optional

IDENT_START = 'abcdefghijklmnopqrstuvwxyzABCDEFGHIJKLMNOPQRSTUVWXYZ_'
IDENT_CHARS = IDENT_START + '0123456789'
DIGITS = '0123456789'
PUNCT3 = ('<=>', '...', '->*')
# '<<' and '>>' deliberately stay two tokens each: '<' and '>' are template brackets here
PUNCT2 = ('::', '->', '==', '!=', '<=', '>=', '&&', '||', '+=', '-=', '*=', '/=', '%=', '&=',
          '|=', '^=', '++', '--')
PREFIX_KW = ('virtual', 'static', 'explicit', 'inline', 'constexpr', 'friend', 'extern')
TYPE_KW = ('int', 'double', 'float', 'char', 'bool', 'void', 'long', 'short', 'unsigned',
           'signed', 'const', 'volatile', 'auto')
OPENERS, CLOSERS = ('(', '[', '{'), (')', ']', '}')


class TokError(Exception):
    """The text is not something this reader understands."""


class Tok:
    __slots__ = ('kind', 'text', 'pos', 'space')

    def __init__(self, kind: str, text: str, pos: int, space: bool):
        self.kind, self.text, self.pos, self.space = kind, text, pos, space

    def __repr__(self):
        return f'{self.kind}:{self.text!r}'


def scan(text: str, keep_comments: bool = False) -> List[Tok]:
    """Token scanner.  `space` of a token says whether whitespace preceded it."""
    toks: List[Tok] = []
    i, n, space = 0, len(text), False
    while i < n:
        c = text[i]
        if c in ' \t\r\n\f\v':
            space, i = True, i + 1
            continue
        start, kind = i, 'punct'
        if text.startswith('//', i):
            j = text.find('\n', i)
            i, kind = (n if j < 0 else j), 'comment'
        elif text.startswith('/*', i):
            j = text.find('*/', i + 2)
            if j < 0:
                raise TokError('unterminated comment')
            i, kind = j + 2, 'comment'
        elif c in IDENT_START:
            while i < n and text[i] in IDENT_CHARS:
                i += 1
            kind = 'id'
        elif c in DIGITS or (c == '.' and i + 1 < n and text[i + 1] in DIGITS):
            i += 1
            while i < n and (text[i] in IDENT_CHARS or text[i] in ".'"
                             or (text[i] in '+-' and text[i - 1] in 'eEpP'
                                 and not text[start:start + 2].lower() == '0x')):
                i += 1
            kind = 'num'
        elif c in '"\'':
            i += 1
            while True:
                if i >= n or text[i] == '\n':
                    raise TokError('unterminated literal')
                if text[i] == '\\':
                    i += 2
                    continue
                if text[i] == c:
                    i += 1
                    break
                i += 1
            kind = 'str' if c == '"' else 'chr'
        else:
            for group, width in ((PUNCT3, 3), (PUNCT2, 2)):
                if text[i:i + width] in group:
                    i += width
                    break
            else:
                i += 1
        if kind != 'comment' or keep_comments:
            toks.append(Tok(kind, text[start:i], start, space))
        space = False
    return toks


def texts(toks: List[Tok]) -> List[str]:
    return [t.text for t in toks]


def is_ident(text: str) -> bool:
    return bool(text) and text[0] in IDENT_START and all(ch in IDENT_CHARS for ch in text)


def brace_balance(text: str) -> Optional[str]:
    """None when '{' '}' (outside literals and comments) balance, else what is wrong."""
    depth = 0
    for tok in scan(text):
        if tok.kind != 'punct':
            continue
        if tok.text == '{':
            depth += 1
        elif tok.text == '}':
            depth -= 1
            if depth < 0:
                return 'close-before-open'
    return None if depth == 0 else 'unclosed'


def _match_close(toks: List[Tok], open_idx: int) -> int:
    depth = 0
    for j in range(open_idx, len(toks)):
        if toks[j].kind != 'punct':
            continue
        if toks[j].text in OPENERS:
            depth += 1
        elif toks[j].text in CLOSERS:
            depth -= 1
            if depth == 0:
                return j
    raise TokError('unbalanced parentheses')


def _split_params(inner: List[Tok]) -> List[Dict[str, Any]]:
    groups, cur, eqs = [], [], []
    depth = ang = 0
    eq_at = None
    for tok in inner:
        x = tok.text
        if tok.kind == 'punct':
            if x in OPENERS:
                depth += 1
            elif x in CLOSERS:
                depth -= 1
            elif x == '<' and eq_at is None and depth == 0:
                ang += 1
            elif x == '>' and eq_at is None and depth == 0 and ang > 0:
                ang -= 1
            elif x == '=' and depth == 0 and ang == 0 and eq_at is None:
                eq_at = len(cur)
            elif x == ',' and depth == 0 and ang == 0:
                groups.append(cur)
                eqs.append(eq_at)
                cur, eq_at = [], None
                continue
        cur.append(tok)
    if cur or groups:
        groups.append(cur)
        eqs.append(eq_at)
    params = []
    for grp, eq in zip(groups, eqs):
        left = grp if eq is None else grp[:eq]
        default = None if eq is None else texts(grp[eq + 1:])
        name = None
        if len(left) >= 2 and left[-1].kind == 'id' and left[-2].text != '::' \
                and left[-1].text not in TYPE_KW:
            name, left = left[-1].text, left[:-1]
        params.append({'type': texts(left), 'name': name, 'default': default})
    return params


def parse_signature(toks: List[Tok]) -> Dict[str, Any]:
    """Read one function/constructor/destructor signature from its tokens."""
    tx = texts(toks)
    lp = next((i for i, t in enumerate(toks) if t.kind == 'punct' and t.text == '('), None)
    if lp is None:
        raise TokError('no parameter list')
    call_op = lp >= 1 and tx[lp - 1] == 'operator' and tx[lp + 1:lp + 2] == [')']
    if call_op:
        lp = next((i for i in range(lp + 2, len(toks)) if tx[i] == '('), None)
        if lp is None:
            raise TokError('no parameter list after operator()')
    rp = _match_close(toks, lp)
    k, prefix = 0, []
    while k < lp and tx[k] in PREFIX_KW:
        prefix.append(tx[k])
        k += 1
    if 'operator' in tx[k:lp]:
        idx = tx.index('operator', k)
        name = 'operator' + ''.join(tx[idx + 1:lp])
    else:
        if lp - 1 < k or toks[lp - 1].kind != 'id':
            raise TokError('no name before the parameter list')
        idx, name = lp - 1, tx[lp - 1]
    tilde = idx - 1 >= k and tx[idx - 1] == '~' and not toks[idx].space
    if tilde:
        idx -= 1
    qual, qual_root = [], False
    while idx - 1 >= k and tx[idx - 1] == '::' and not toks[idx].space:
        if idx - 2 >= k and toks[idx - 2].kind == 'id' and not toks[idx - 1].space:
            qual.insert(0, tx[idx - 2])
            idx -= 2
        else:
            qual_root = True
            idx -= 1
            break
    ret = tx[k:idx]
    j, cav = rp + 1, []
    while j < len(tx) and tx[j] not in ('override', 'final', '=', ';', '{'):
        cav.append(tx[j])
        j += 1
    override = False
    while j < len(tx) and tx[j] in ('override', 'final'):
        override = override or tx[j] == 'override'
        j += 1
    init = None
    if j < len(tx) and tx[j] == '=':
        j, init = j + 1, []
        while j < len(tx) and tx[j] not in (';', '{'):
            init.append(tx[j])
            j += 1
    return {'prefix': prefix, 'ret': ret, 'qual': qual, 'qual_root': qual_root, 'tilde': tilde,
            'name': name, 'params': _split_params(toks[lp + 1:rp]), 'cav': cav,
            'override': override, 'init': init, 'tail': tx[j:]}


def _parse_fqn(tx: List[str], i: int):
    root = i < len(tx) and tx[i] == '::'
    if root:
        i += 1
    ids = []
    while i < len(tx) and is_ident(tx[i]) and tx[i] not in ('const', 'volatile'):
        ids.append(tx[i])
        i += 1
        if i + 1 < len(tx) and tx[i] == '::' and is_ident(tx[i + 1]):
            i += 1
        else:
            break
    return root, ids, i


def parse_type(tx: List[str]) -> Dict[str, Any]:
    """[const] [::]A::B [<[::]C::D>] [&|*]  ->  structured; leftovers land in 'extra'."""
    i, const = 0, False
    if tx[:1] == ['const']:
        const, i = True, 1
    root, ids, i = _parse_fqn(tx, i)
    targ = None
    if i < len(tx) and tx[i] == '<':
        troot, tids, j = _parse_fqn(tx, i + 1)
        if j < len(tx) and tx[j] == '>':
            targ, i = {'root': troot, 'ids': tids}, j + 1
    postfix = ''
    while i < len(tx) and tx[i] in ('&', '*', '&&'):
        postfix += tx[i]
        i += 1
    out = {'const': const, 'root': root, 'ids': ids, 'targ': targ, 'postfix': postfix}
    if i < len(tx):
        out['extra'] = tx[i:]
    return out
