#!/venv/bin/python
"""Regenerates /verif/MANIFEST.json from the table below (one row per property)."""
import json
import os

HERE = os.path.dirname(os.path.dirname(os.path.abspath(__file__)))

# id -> (level category, technique, level text, level note, design ref)
CHECKS = {
    'C07': ('exploration', 'online observer on every find_fqn call of a build + build-level oracle over re-spelled references, decided by a set-comprehension resolver; sample compiled against distinct C++ types',
            'Held on the builds of the run: per base model up to 6 reference sites x up to 14 spellings drawn from every declared name; unique-and-right-kind must build with exactly that '
            'declaration in the emitted text, anything else must fail.',
            'Only references the shell really uses are judged (port types, parameters of rerouted events, claim reply enum).',
            'DESIGN.md section 3 C07'),
    'C11': ('exploration', 'ThreadSanitizer on the emitted multi-client C++ with sleep injection + deterministic cooperative scheduler enumerating interleavings under a preemption bound + in-process claim-holder oracle',
            'Held on the executions of the run: TSan runs with 2-3 client threads and environment out-events; thousands (quick) to ~10^5 (thorough) distinct schedules of the '
            'claim/use/release scenario explored depth-first and at random, deadlock decided logically; MutexWrapped alone under TSan.',
            'Yield points are where user code can observe; the schedule space is bounded by a preemption bound and a run budget, reported in the evidence.',
            'DESIGN.md section 3 C11'),
    'C04': ('exploration', 'history monitor: scripted claim/release/other/out histories on the compiled multi-client shell vs a sequential claim-holder model',
            'Held on the histories of the run: every history of length <=3 (quick) / <=4 (thorough) over two clients enumerated on one program, '
            'random histories of up to 30 operations with 1-5 clients on the others; per-client recorders decide who received each out-event.',
            'A component that grants while another client holds the claim is judged leniently; mock runtime and scripted mock component are trusted.',
            'DESIGN.md section 3 C04'),
    'C09': ('exploration', 'identity log (addresses of locator, dispatcher, runtime seen by the mock component vs shell members) over all 8 locator shapes; detection idiom for Locator()',
            'Held on the constructions of the run: every program constructed once per subset of {dispatcher, runtime, other service} in the user locator, under ASan+UBSan.',
            'The mock locator exposes its service map to the instrumented mock component; addresses are compared, not names.',
            'DESIGN.md section 3 C09'),
    'C10': ('fault_enumeration', 'outcome log of FinalConstruct() with exactly one binding omitted, enumerated over user-side and component-side events',
            'Held on the runs of the run: per program all-bound (must succeed, parent recorded, late registration refused) and one run per omitted binding '
            '(per client for multi-client ports), each of which must end in a binding error.',
            'Mock component checks its own ports like Dezyne-generated components; omitted bindings per program capped at 12 (quick) / 40 (thorough) per side.',
            'DESIGN.md section 3 C10'),
    'C01': ('exploration', 'offline trace check (exactly-once routing, unique argument ids) over the event log of the compiled shell + mock runtime',
            'Held on the compiled programs of the run: every event of every exposed port stimulated three times in its direction; the checker demands '
            'a bijection stimuli <-> arrivals with equal port, event, id vectors, replies and out values.',
            'Mock Dezyne runtime, mock model header and generated harness are the trusted base; events are driven one at a time.',
            'DESIGN.md section 3 C01'),
    'C02': ('exploration', 'ordering/thread-context trace check under ASan+UBSan with a gated dispatcher; accessor types as static_asserts',
            'Held on the compiled programs of the run: dispatcher context, return-after-execution, post-and-return under a closed gate, '
            'argument copies (id comparison + stack-use-after-return detection), STS identity and no dispatcher traffic.',
            'Verdicts come from sequence numbers and the dispatcher flag of the mock pump, not from time.',
            'DESIGN.md section 3 C02'),
    'C06': ('exploration', 'compile-and-link oracle: returned files, unmodified, against a mock Dezyne runtime and mock model header, in eight translation-unit shapes',
            'Held on the file sets of the run (special model shapes + random models, every third multi-client): each header alone and twice, '
            'all headers in random orders, harness TU + shell source linked and run, two shells per TU, two prefixes per program.',
            'Mock runtime/model header fidelity is by construction from the API the emitted code uses; g++ 12 / clang++ 14 with libstdc++.',
            'DESIGN.md section 3 C06'),
    'C14': ('exploration', 'reference-model monitor: set-comprehension spec vs find_fqn/find_any/scope_resolution_order; hand-written identifier validator vs NamespaceIds',
            'Held on the enumerated and sampled cases of the run; declaration sets of size <=2 over a 3-identifier alphabet are enumerated exhaustively '
            '(depth 2 quick, depth 3 thorough) with every query and calling scope; identifier strings of length <=2/3 over a hostile alphabet exhaustively.',
            'Result order is not judged; find_any with an empty suffix and aliasing are not judged.',
            'DESIGN.md section 3 C14'),
    'C15': ('fault_enumeration', 'exception classifier over structurally mutated documents + out-event refusal predicate computed on the mutated document',
            'Held on the mutants of the run (20k quick / 500k thorough, 1-3 faults each, twelve fault kinds) plus hand-made documents and non-object roots.',
            'Only valid JSON is fed; a text the JSON decoder itself refuses is counted, not judged. Known finding D10 (RecursionError at ~500 nested namespaces).',
            'DESIGN.md section 3 C15'),
    'C16': ('exploration', 'history monitor: every process() result of an interleaved history vs the IR expectation / a fresh child interpreter',
            'Held on the histories of the run (3-20 operations over 2-4 documents and 1-4 live parser instances).',
            'Primary oracle is the IR expectation (independent of dznpy); one history in ten also uses fresh child interpreters.',
            'DESIGN.md section 3 C16'),
    'C12': ('exploration', 'deep snapshots of model/configuration around every build + per-build comparison with a fresh child interpreter',
            'Held on the histories of the run (3-12 builds over shared parsed models, valid and invalid configurations, edited model variants, reused Builder/Configuration objects).',
            'Observable change = difference of deep structural snapshots; reference = same (document, configuration) built alone in a fresh process.',
            'DESIGN.md section 3 C12'),
    'C19': ('exploration', 'line predicate on rendered comments vs independent line splitter + comment-stripped and g++-lexer residue diff of build pairs',
            'Held on the comment texts and build pairs of the run (hostile strings with every line boundary, */, #include, backslash, trigraph).',
            'g++ -fpreprocessed -E -P used only as comment stripper; one optional space between // and the text accepted.',
            'DESIGN.md section 3 C19'),
    'C20': ('exploration', 'parse-back of rendered declarations/definitions with an independent tokenizer + g++/clang++ -fsyntax-only on random compositions',
            'Held on the generated descriptions and compiled compositions of the run.',
            'Tokenizer vlib/cpptok.py covers the signatures cpp_gen can emit; compositions restricted to what C++ itself allows.',
            'DESIGN.md section 3 C20'),
    'C03': ('exploration', 'return/exception observer on PortsCfg, match() and Builder.build decided by a three-valued reference matcher',
            'Held on the enumerated and sampled configurations of the run; per side the selection pairs over a small universe are '
            'enumerated exhaustively at match and build level, provides x requires products and larger port sets are sampled.',
            'Reference matcher vlib/refcfg.py written from the property text; open cases are UNSPECIFIED and accept any non-internal outcome.',
            'DESIGN.md section 3 C03'),
    'C08': ('exploration', 'digest comparison across child interpreters (PYTHONHASHSEED x set construction order x passes) + independent MD5',
            'Held on the executions of the run: every case built in 8 (quick) / 64 (thorough) child interpreters, two passes each.',
            'Equal inputs = same JSON document and configuration encoding; the children import /repo/src.',
            'DESIGN.md section 3 C08'),
    'C13': ('fault_enumeration', 'outcome classifier on tracebacks over valid builds and every applicable single fault',
            'Held on the builds of the run: each generated model/configuration once valid and once per listed single fault; '
            'INTERNAL exceptions, accepted faults, refused valid inputs and partial file sets refute.',
            'Deliberate TypeError/ValueError raised by dznpy with a message count as diagnosed; unlisted faults are not generated.',
            'DESIGN.md section 3 C13'),
    'C17': ('exploration', 'reference-model monitor + class invariant wrapped onto TextBlock at run time',
            'Held on the generated contents of the run: every TextBlock/chunk/cond_chunk/trim result equals an independent '
            'flattener and line splitter; the no-line-break invariant is evaluated after every public TextBlock call.',
            'Reference semantics in vlib/textref.py written from the property text; contents of empty strings only are not judged for chunk().',
            'DESIGN.md section 3 C17'),
    'C18': ('exploration', 'reference-model monitor: direct specification of the indenter vs Indentizer/TextBlock.indent',
            'Held on the generated line lists x indenter configurations of the run; each output line is compared with the specification.',
            'Glyph domain: >=1 non-whitespace characters; bullet-mode lines compared modulo trailing whitespace, never gaining any.',
            'DESIGN.md section 3 C18'),
    'C05': ('exploration', 'reference-model monitor: IR -> JSON -> real parser -> field-wise unparser == IR expectation',
            'Held on the generated documents of the run (hundreds quick, tens of thousands thorough); every '
            'container of FileContents is compared entry by entry against a model that never passed through dznpy.',
            'IR->JSON projection follows the JSON shapes of the repository test data; no real Dezyne available.',
            'DESIGN.md section 3 C05'),
}

PENDING_REASON = 'check not built yet in this round (framework under construction); planned, see DESIGN.md section 3'


def main():
    props = [json.loads(l) for l in open(os.path.join(HERE, 'properties.jsonl'), encoding='utf-8')]
    checks, na = [], []
    for p in props:
        pid = p['id']
        if pid in CHECKS:
            cat, tech, text, note, ref = CHECKS[pid]
            checks.append({
                'property_id': pid,
                'quick_cmd': f'./check {pid} --tier quick',
                'thorough_cmd': f'./check {pid} --tier thorough',
                'evidence_file': f'evidence/{pid}.json',
                'replay_cmd_template': f'./check {pid} --replay {{path}}',
                'engine': 'vlib',
                'level_claimed': {'category': cat, 'text': text, 'design_ref': ref},
                'level_note': note,
                'technique': tech,
            })
        else:
            na.append({'property_id': pid, 'reason': NA.get(pid, PENDING_REASON)})
    manifest = {
        'version': 1,
        'setup_cmd': './tools/setup.sh',
        'hooks': {
            'guard': 'DZNPY_VERIF',
            'enable': 'none needed: no source line in /repo consults the guard; monitors observe from outside '
                      '(sys.monitoring, wrappers, mock Dezyne runtime, ILog callbacks); checks import /repo/src directly',
            'baseline_off_cmd': 'cd /repo && /venv/bin/python -m pytest -ra -q -p no:cacheprovider --timeout=900 '
                                '--continue-on-collection-errors',
            'source_commits': [],
            'add_only': True,
        },
        'engines': [{'name': 'vlib', 'path': 'vlib', 'serves_properties': sorted(CHECKS),
                     'kind_free_text': 'runtime monitors: reference-model oracles over generated inputs, '
                                       'compiled shells against an instrumented mock Dezyne runtime under sanitizers, '
                                       'offline trace checkers'}],
        'checks': checks,
        'notes': 'All checks import dznpy from /repo/src (DZNPY_SRC overrides) and abort as inconclusive otherwise. '
                 'Exit 0 held / 1 violated / 2 inconclusive. Every other chunk of work items of every check is '
                 'evaluated in a child interpreter with other surroundings (python -O, warnings as errors, ASCII '
                 'locale, DEBUG logging, other cwd; vlib/surroundings.py; VERIF_NO_SURROUNDINGS=1 switches that off); '
                 'VERIF_SEED selects the workload seed (default 0), VERIF_EVIDENCE_DIR redirects the evidence files.',
        'not_applicable': na,
    }
    with open(os.path.join(HERE, 'MANIFEST.json'), 'w', encoding='utf-8') as fh:
        json.dump(manifest, fh, indent=1)
        fh.write('\n')


NA = {}

if __name__ == '__main__':
    main()
