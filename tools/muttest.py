#!/venv/bin/python
"""Mutation self-test: apply each small break from selftest/mutations.json to a scratch copy
of /repo/src and confirm that the named property's quick check exits 1 (and optionally that
unrelated checks stay silent).

    tools/muttest.py [--only NAME_SUBSTR] [--prop C17] [--tier quick] [--controls]

A mutation is {"name", "file" (relative to src/dznpy), "old", "new", "props": ["C17", ...],
"count": optional occurrence count to replace (default: all, must be >= 1)}.
"""
import argparse
import json
import os
import shutil
import subprocess
import sys
import tempfile
import time

HERE = os.path.dirname(os.path.dirname(os.path.abspath(__file__)))
SRC = os.environ.get('DZNPY_SRC', '/repo/src')
SIDE = tempfile.mkdtemp(prefix='dznpy-verif-side-')


def run_check(prop, tier, src):
    env = dict(os.environ, DZNPY_SRC=src, VERIF_EVIDENCE_DIR=SIDE, VERIF_REPLAY_DIR=SIDE + '/replay')
    t0 = time.time()
    proc = subprocess.run([os.path.join(HERE, 'check'), prop, '--tier', tier], cwd=HERE, env=env,
                          capture_output=True, text=True, timeout=3600)
    return proc.returncode, proc.stdout + proc.stderr, time.time() - t0


def main():
    ap = argparse.ArgumentParser()
    ap.add_argument('--only', default=None)
    ap.add_argument('--prop', default=None)
    ap.add_argument('--tier', default='quick')
    ap.add_argument('--file', default=os.path.join(HERE, 'selftest', 'mutations.json'))
    args = ap.parse_args()
    muts = json.load(open(args.file, encoding='utf-8'))
    results = []
    try:
        for mut in muts:
            if args.only and args.only not in mut['name']:
                continue
            props = [p for p in mut['props'] if not args.prop or p == args.prop]
            if not props:
                continue
            scratch = tempfile.mkdtemp(prefix='dznpy-verif-mut-')
            try:
                dst = os.path.join(scratch, 'src')
                shutil.copytree(SRC, dst, ignore=shutil.ignore_patterns('__pycache__'))
                path = os.path.join(dst, 'dznpy', mut['file'])
                text = open(path, encoding='utf-8').read()
                if mut['old'] not in text:
                    results.append((mut['name'], '-', 'STALE (old text not found)', 0))
                    print(f'{mut["name"]:55s} STALE: old text not found in {mut["file"]}')
                    continue
                text = text.replace(mut['old'], mut['new'], mut.get('count', -1))
                open(path, 'w', encoding='utf-8').write(text)
                for prop in props:
                    code, out, secs = run_check(prop, args.tier, dst)
                    verdict = {0: 'MISSED', 1: 'caught', 2: 'inconclusive'}.get(code, f'exit{code}')
                    results.append((mut['name'], prop, verdict, secs))
                    first = next((l for l in out.splitlines() if l.startswith('  class=')), '')
                    print(f'{mut["name"]:55s} {prop} {verdict:12s} {secs:6.1f}s {first[:110]}')
                    sys.stdout.flush()
            finally:
                shutil.rmtree(scratch, ignore_errors=True)
    finally:
        shutil.rmtree(SIDE, ignore_errors=True)
    missed = [r for r in results if r[2] != 'caught']
    print(f'\n{len(results)} runs, {len(results) - len(missed)} caught, {len(missed)} not caught')
    return 1 if missed else 0


if __name__ == '__main__':
    sys.exit(main())
