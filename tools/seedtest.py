#!/venv/bin/python
"""Run the checks against the seeded property-breaking changes under /verif/seeded/<id>/.

    tools/seedtest.py [--only NAME] [--tier quick|thorough] [--all-props] [--demo]

Each seeded directory holds patch.diff, the author's demonstration and meta.json.  The patch
is applied to a scratch copy of /repo (never to /repo itself), the property's check runs with
DZNPY_SRC pointing at the copy, and the verdict is printed.  --demo also runs the
demonstration against the unchanged and the changed tree.
"""
import argparse
import json
import os
import shutil
import subprocess
import sys
import tempfile
import time

HERE = os.path.dirname(os.path.dirname(os.path.abspath(__file__)))
REPO = os.environ.get('DZNPY_REPO', '/repo')


def main():
    ap = argparse.ArgumentParser()
    ap.add_argument('--only', default=None)
    ap.add_argument('--tier', default='quick')
    ap.add_argument('--demo', action='store_true')
    ap.add_argument('--props', default=None, help='comma separated properties to run instead')
    ap.add_argument('--root', default='seeded', help='directory under /verif holding the changes')
    ap.add_argument('--expect-silent', action='store_true',
                    help='the changes preserve the properties: every check must stay silent')
    args = ap.parse_args()
    root = os.path.join(HERE, args.root)
    names = sorted(d for d in os.listdir(root) if os.path.isdir(os.path.join(root, d)))
    side = tempfile.mkdtemp(prefix='dznpy-verif-side-')
    results = []
    try:
        for name in names:
            if args.only and args.only not in name:
                continue
            sdir = os.path.join(root, name)
            meta = json.load(open(os.path.join(sdir, 'meta.json'), encoding='utf-8'))
            if meta.get('out_of_scope') and not args.props and not args.expect_silent:
                print(f'{name:40s} -   out-of-scope (see meta.json)')
                results.append((name, '-', 'out-of-scope'))
                continue
            props = args.props.split(',') if args.props else (
                meta['caught_by'] if 'caught_by' in meta else
                [meta['property']] if 'property' in meta else
                [f'C{i:02d}' for i in range(1, 21)])
            scratch = tempfile.mkdtemp(prefix='dznpy-verif-seed-')
            try:
                copy = os.path.join(scratch, 'repo')
                shutil.copytree(REPO, copy, ignore=shutil.ignore_patterns('.git', '__pycache__'))
                proc = subprocess.run(['git', 'apply', '--unsafe-paths', '--directory', copy,
                                       os.path.join(sdir, 'patch.diff')], capture_output=True,
                                      text=True, cwd='/')
                if proc.returncode != 0:
                    proc = subprocess.run(['patch', '-p1', '-d', copy, '-i',
                                           os.path.join(sdir, 'patch.diff')],
                                          capture_output=True, text=True)
                if proc.returncode != 0:
                    print(f'{name:40s} PATCH DOES NOT APPLY: {proc.stderr[:200]}')
                    results.append((name, '-', 'stale'))
                    continue
                if args.demo and os.path.exists(os.path.join(sdir, 'demo.py')):
                    for label, tree in (('unchanged', REPO), ('changed', copy)):
                        dp = subprocess.run([sys.executable, os.path.join(sdir, 'demo.py'), tree],
                                            capture_output=True, text=True, timeout=900, cwd=sdir)
                        print(f'{name:40s} demo on {label:9s}: exit {dp.returncode}')
                for prop in props:
                    t0 = time.time()
                    env = dict(os.environ, DZNPY_SRC=os.path.join(copy, 'src'),
                               VERIF_EVIDENCE_DIR=side, VERIF_REPLAY_DIR=side + '/replay')
                    cp = subprocess.run([os.path.join(HERE, 'check'), prop, '--tier', args.tier],
                                        cwd=HERE, env=env, capture_output=True, text=True,
                                        timeout=6 * 3600)
                    names_ = {0: 'silent', 1: 'ALARM', 2: 'inconclusive'} if args.expect_silent else \
                        {0: 'MISSED', 1: 'caught', 2: 'inconclusive'}
                    verdict = names_.get(cp.returncode, f'exit{cp.returncode}')
                    first = next((l for l in cp.stdout.splitlines() if l.startswith('  class=')), '')
                    print(f'{name:40s} {prop} {verdict:12s} {time.time() - t0:6.1f}s {first[:120]}')
                    sys.stdout.flush()
                    results.append((name, prop, verdict))
            finally:
                shutil.rmtree(scratch, ignore_errors=True)
    finally:
        shutil.rmtree(side, ignore_errors=True)
    good = 'silent' if args.expect_silent else 'caught'
    scoped = [r for r in results if r[2] != 'out-of-scope']
    missed = [r for r in scoped if r[2] != good]
    print(f'\n{len(scoped)} runs, {len(scoped) - len(missed)} {good}, {len(missed)} not {good}'
          + (f', {len(results) - len(scoped)} out of scope' if len(scoped) != len(results) else ''))
    return 1 if missed else 0


if __name__ == '__main__':
    sys.exit(main())
