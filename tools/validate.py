#!/opt/veriftools/pyvenv/bin/python
"""Validate MANIFEST.json and every evidence file against the schemas, and that levels agree."""
import json
import os
import sys
import jsonschema

HERE = os.path.dirname(os.path.dirname(os.path.abspath(__file__)))
man = json.load(open(os.path.join(HERE, 'MANIFEST.json')))
jsonschema.validate(man, json.load(open('/root/.vp/MANIFEST.schema.json')))
esch = json.load(open('/root/.vp/EVIDENCE.schema.json'))
bad = 0
for chk in man['checks']:
    path = os.path.join(HERE, chk['evidence_file'])
    if not os.path.exists(path):
        print('missing evidence', chk['property_id']); bad += 1; continue
    ev = json.load(open(path))
    try:
        jsonschema.validate(ev, esch)
    except jsonschema.ValidationError as exc:
        print('invalid evidence', chk['property_id'], exc.message[:200]); bad += 1
    if ev['level'] != chk['level_claimed']['category']:
        print('level mismatch', chk['property_id'], ev['level'], chk['level_claimed']['category']); bad += 1
    if ev['property_id'] != chk['property_id']:
        print('id mismatch', chk['property_id']); bad += 1
    if ev['coverage'].get('verdict') != 'held':
        print('verdict', chk['property_id'], ev['coverage'].get('verdict')); bad += 1
claimed = {c['property_id'] for c in man['checks']}
na = {c['property_id'] for c in man.get('not_applicable', [])}
props = {json.loads(l)['id'] for l in open(os.path.join(HERE, 'properties.jsonl'))}
if claimed | na != props or claimed & na:
    print('claimed/not_applicable do not partition the properties'); bad += 1
print('ok' if not bad else f'{bad} problem(s)', f'claimed={len(claimed)} na={len(na)}')
sys.exit(1 if bad else 0)
