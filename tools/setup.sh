#!/bin/sh
# Offline setup: nothing to build ahead of time; verify the tools the checks rely on exist.
set -e
test -x /venv/bin/python
command -v g++ >/dev/null
command -v clang++-14 >/dev/null
/venv/bin/python -c "import orjson, typing_extensions"
/venv/bin/python tools/selfcheck.py | tail -1
echo "setup ok"
