#!/venv/bin/python
"""Unit tests of the offline checkers and reference models on hand-made inputs: every checker
must be silent on a good log and name the fault in a bad one.  Run: tools/selfcheck.py"""
import os
import sys

HERE = os.path.dirname(os.path.dirname(os.path.abspath(__file__)))
sys.path.insert(0, HERE)
from vlib import refcfg, textref, tracecheck  # noqa: E402
from vlib import model as M  # noqa: E402

FAILED = []


def expect(name, cond):
    print(('ok   ' if cond else 'FAIL ') + name)
    if not cond:
        FAILED.append(name)


def rec(seq, kind, disp=False, thr=0, **d):
    return {'seq': seq, 'kind': kind, 'disp': disp, 'thr': thr, 'd': d}


META = {'mapping': {'p': 'MTS', 's': 'STS', 'r': 'MTS'},
        'ports': {'p': {'direction': 'provides'}, 's': {'direction': 'provides'},
                  'r': {'direction': 'requires'}}, 'mc': None, 'origin': 'import'}


def good_routing():
    return [
        rec(1, 'call', stim=1, side='user', port='p', event='e', dir='in', client='-', args=[11, 12]),
        rec(2, 'post', task=1, pump=7),
        rec(3, 'exec_begin', True, -1, task=1, pump=7),
        rec(4, 'arrive', True, -1, side='comp', port='p', event='e', dir='in', args=[11, 12], pump=7),
        rec(5, 'arrive_done', True, -1, side='comp', port='p', event='e', outs=[13], reply=1),
        rec(6, 'exec_end', True, -1, task=1, pump=7),
        rec(7, 'return', stim=1, outs=[13], reply=1),
    ]


def mutate(log, seq, **changes):
    out = []
    for r in log:
        r = {**r, 'd': dict(r['d'])}
        if r['seq'] == seq:
            for k, v in changes.items():
                if k in ('disp', 'thr', 'kind'):
                    r[k] = v
                else:
                    r['d'][k] = v
        out.append(r)
    return out


def mechs(viols):
    return {v[0] for v in viols}


def test_routing():
    v, c = tracecheck.check_routing(good_routing(), META)
    expect('routing: good log silent', not v and c['stimuli'] == 1 and c['arrivals'] == 1)
    v, _ = tracecheck.check_routing([r for r in good_routing() if r['kind'] not in ('arrive', 'arrive_done')], META)
    expect('routing: lost event', 'event-not-forwarded' in mechs(v))
    dup = good_routing() + [rec(8, 'arrive', True, -1, side='comp', port='p', event='e', dir='in', args=[11, 12], pump=7)]
    v, _ = tracecheck.check_routing(dup, META)
    expect('routing: duplicate delivery', 'event-forwarded-more-than-once' in mechs(v))
    v, _ = tracecheck.check_routing(mutate(good_routing(), 4, event='f'), META)
    expect('routing: misrouted to other event', 'event-misrouted' in mechs(v))
    v, _ = tracecheck.check_routing(mutate(good_routing(), 4, args=[12, 11]), META)
    expect('routing: arguments reordered', 'arguments-reordered' in mechs(v))
    v, _ = tracecheck.check_routing(mutate(good_routing(), 4, args=[11, 99]), META)
    expect('routing: arguments altered', 'arguments-altered' in mechs(v))
    v, _ = tracecheck.check_routing(mutate(good_routing(), 7, outs=[0]), META)
    expect('routing: out value lost', 'out-values-not-carried-back' in mechs(v))
    v, _ = tracecheck.check_routing(mutate(good_routing(), 7, reply=0), META)
    expect('routing: reply lost', 'reply-not-carried-back' in mechs(v))


def nested_log(client='A', arrive=True, twice=False, event='o'):
    log = [
        rec(1, 'call', stim=1, side='user', port='p', event='rel', dir='in', client='A', args=[]),
        rec(2, 'arrive', True, -1, side='comp', port='p', event='rel', dir='in', args=[], pump=7),
        rec(3, 'nested', True, -1, **{'in': 'comp/p/rel', 'out': 'p/o'}),
        rec(4, 'call', True, -1, stim=2, side='comp', port='p', event='o', dir='out', args=[5])]
    if arrive:
        log.append(rec(5, 'arrive', True, -1, side='user', port='p', event=event, dir='out',
                       client=client, args=[5], pump=7))
        log.append(rec(6, 'arrive_done', True, -1, side='user', port='p', event=event, outs=[], reply=-1))
    if twice:
        log.append(rec(6.5, 'arrive', True, -1, side='user', port='p', event=event, dir='out',
                       client='B', args=[5], pump=7))
    log += [rec(7, 'return', True, -1, stim=2, outs=[], reply=-1),
            rec(8, 'arrive_done', True, -1, side='comp', port='p', event='rel', outs=[], reply=-1),
            rec(9, 'return', stim=1, outs=[], reply=-1)]
    return log


def test_nested():
    meta = dict(META, mc={'port': 'p', 'claim': 'cl', 'release': 'rel', 'grant': 0})
    script = 'nest comp/p/rel p/o\ncall p/rel A\n'
    v, c = tracecheck.check_nested(nested_log(), meta, script)
    expect('nested: good log silent', not v and c['nested_out_events_raised'] == 1
           and c['nested_out_events_to_the_claim_holder'] == 1)
    v, _ = tracecheck.check_nested(nested_log(arrive=False), meta, script)
    expect('nested: out-event raised while releasing is lost', 'event-not-forwarded' in mechs(v))
    v, _ = tracecheck.check_nested(nested_log(twice=True), meta, script)
    expect('nested: delivered twice', 'event-forwarded-more-than-once' in mechs(v))
    v, _ = tracecheck.check_nested(nested_log(client='B'), meta, script)
    expect('nested: delivered to another client', 'multiclient-out-event-to-wrong-client' in mechs(v))
    v, _ = tracecheck.check_nested(nested_log(event='x'), meta, script)
    expect('nested: misrouted', 'event-misrouted' in mechs(v))
    v, _ = tracecheck.check_nested([r for r in nested_log() if r['seq'] not in (3, 4, 5, 6, 7)], meta, script)
    expect('nested: armed but never raised', 'event-not-forwarded' in mechs(v))


def test_semantics():
    addr = rec(0, 'addresses', user_pump=7)
    v, c = tracecheck.check_semantics([addr] + good_routing(), META)
    expect('semantics: good MTS provides silent', not v and c['mts_provides_in'] == 1)
    v, _ = tracecheck.check_semantics([addr] + mutate(good_routing(), 4, disp=False), META)
    expect('semantics: MTS in-event outside dispatcher', 'mts-provides-in-event-not-in-dispatcher-context' in mechs(v))
    v, _ = tracecheck.check_semantics([addr] + mutate(good_routing(), 4, pump=8), META)
    expect('semantics: foreign dispatcher', 'mts-provides-in-event-on-foreign-dispatcher' in mechs(v))
    early = [r if r['seq'] != 7 else {**r, 'seq': 4.5} for r in good_routing()]
    early.sort(key=lambda r: r['seq'])
    v, _ = tracecheck.check_semantics([addr] + early, META)
    expect('semantics: returned before execution', 'mts-provides-in-event-returned-before-execution' in mechs(v))
    sts = [rec(1, 'call', stim=1, side='user', port='s', event='e', dir='in', client='-', args=[1]),
           rec(2, 'arrive', side='comp', port='s', event='e', dir='in', args=[1], pump=0),
           rec(3, 'arrive_done', side='comp', port='s', event='e', outs=[], reply=-1),
           rec(4, 'return', stim=1, outs=[], reply=-1)]
    v, c = tracecheck.check_semantics(sts, META)
    expect('semantics: good STS silent', not v and c['sts_events'] == 1)
    v, _ = tracecheck.check_semantics(sts[:1] + [rec(1.5, 'post', task=1, pump=7)] + sts[1:], META)
    expect('semantics: STS through dispatcher', 'sts-event-passes-through-dispatcher' in mechs(v))
    gate = [rec(1, 'gate', state='close'),
            rec(2, 'call', stim=1, side='user', port='r', event='o', dir='out', client='-', args=[5]),
            rec(3, 'post', task=1, pump=7), rec(4, 'return', stim=1, outs=[], reply=-1),
            rec(5, 'gate', state='open'),
            rec(6, 'arrive', True, -1, side='comp', port='r', event='o', dir='out', args=[5], pump=7),
            rec(7, 'arrive_done', True, -1, side='comp', port='r', event='o', outs=[], reply=-1)]
    v, c = tracecheck.check_semantics([addr] + gate, META)
    expect('semantics: good gated MTS requires out silent', not v and c['gate_tests'] == 1)
    v, _ = tracecheck.check_semantics([addr] + mutate(gate, 6, args=[-777]), META)
    expect('semantics: argument not copied', 'mts-requires-out-event-arguments-not-copied' in mechs(v))
    sync = [gate[0], gate[1], {**gate[5], 'seq': 2.5, 'disp': False}, {**gate[6], 'seq': 2.6}, gate[3], gate[4]]
    v, _ = tracecheck.check_semantics([addr] + sync, META)
    expect('semantics: executed synchronously', {'mts-requires-out-event-executed-synchronously',
                                                  'mts-requires-out-event-not-in-dispatcher-context'} & mechs(v))
    v, _ = tracecheck.check_semantics([addr] + gate[:3] + [rec(3.5, 'stalled_call')] + gate[3:], META)
    expect('semantics: caller blocked', 'caller-blocked-on-queued-event' in mechs(v))
    v, _ = tracecheck.check_semantics([rec(1, 'port_address', port='s', accessor=1, component=2)], META)
    expect('semantics: STS accessor is a copy', 'sts-accessor-is-not-the-components-port' in mechs(v))


def test_facilities():
    meta = dict(META, origin='create')
    log = [rec(1, 'locator_before', shape='x', user_services=[['i', 5]], user_locator=100, user_pump=0, user_runtime=0),
           rec(2, 'component_constructed', type='C', self=1000, locator=1100,
               services=[['i', 5], ['N3dzn4pumpE', 1010], ['N3dzn7runtimeE', 1020]]),
           rec(3, 'constructed'),
           rec(4, 'addresses', shell=1000, shell_size=500, shell_locator=1100, shell_pump=1010,
               shell_runtime=1020, user_services=[['i', 5]])]
    v, _ = tracecheck.check_facilities(log, meta, 'x')
    expect('facilities: good create silent', not v)
    v, _ = tracecheck.check_facilities(mutate(log, 2, locator=100), meta, 'x')
    expect('facilities: prototype handed to component', 'component-constructed-with-the-prototype-locator' in mechs(v))
    v, _ = tracecheck.check_facilities(mutate(log, 4, user_services=[['i', 5], ['N3dzn4pumpE', 1010]]), meta, 'x')
    expect('facilities: user locator modified', 'user-locator-modified' in mechs(v))
    v, _ = tracecheck.check_facilities(log, meta, 'px')
    expect('facilities: create must refuse a dispatcher', 'construction-succeeded-with-wrong-facilities' in mechs(v))
    v, _ = tracecheck.check_facilities([rec(1, 'construct_failed', what='x')], dict(META, origin='import'), 'pr')
    expect('facilities: import must accept pump+runtime', 'construction-failed-with-proper-facilities' in mechs(v))


def test_final():
    expect('final: throws as expected', not tracecheck.check_final([rec(1, 'final_threw', type='binding_error', what='x')], True, 'p/e'))
    expect('final: missed', tracecheck.check_final([rec(1, 'final_ok')], True, 'p/e')[0][0] == 'final-construction-missed-unbound-event')
    expect('final: spurious', tracecheck.check_final([rec(1, 'final_threw', type='binding_error', what='x')], False, '-')[0][0]
           == 'final-construction-failed-although-all-bound')


def test_refcfg():
    j = refcfg.judge
    A, N, R = 'ALL', 'NONE', 'REMAINING'
    expect('refcfg: all_mts accepted', j({'sts': N, 'mts': A}, {'sts': N, 'mts': A}, ['a'], ['r'], [])[0] == 'accept')
    expect('refcfg: explicit before wildcard', j({'sts': N, 'mts': A}, {'sts': ['r'], 'mts': R}, ['a'], ['r', 'q'], [])[2]
           == {'a': 'MTS', 'r': 'STS', 'q': 'MTS'})
    expect('refcfg: unknown name rejected', j({'sts': N, 'mts': A}, {'sts': ['zz'], 'mts': R}, ['a'], ['r'], [])[0] == 'reject')
    expect('refcfg: both semantics rejected', j({'sts': N, 'mts': A}, {'sts': ['r'], 'mts': ['r']}, ['a'], ['r'], [])[0] == 'reject')
    expect('refcfg: all + set rejected', j({'sts': N, 'mts': A}, {'sts': A, 'mts': ['r']}, ['a'], ['r'], [])[0] == 'reject')
    expect('refcfg: all + remaining rejected', j({'sts': N, 'mts': A}, {'sts': A, 'mts': R}, ['a'], ['r'], [])[0] == 'reject')
    expect('refcfg: mixed provides rejected', j({'sts': ['a'], 'mts': ['b']}, {'sts': A, 'mts': N}, ['a', 'b'], [], [])[0] == 'reject')
    expect('refcfg: uncovered port rejected', j({'sts': ['a'], 'mts': N}, {'sts': A, 'mts': N}, ['a', 'b'], [], [])[0] == 'reject')
    expect('refcfg: injected needs nothing', j({'sts': N, 'mts': A}, {'sts': N, 'mts': ['r']}, ['a'], ['r'], ['inj'])[0] == 'accept')
    expect('refcfg: name of injected port unspecified', j({'sts': N, 'mts': A}, {'sts': ['inj'], 'mts': R}, ['a'], ['r'], ['inj'])[0] == 'unspecified')
    expect('refcfg: remaining twice unspecified', j({'sts': N, 'mts': A}, {'sts': R, 'mts': R}, ['a'], ['r'], [])[0] == 'unspecified')


def test_textref():
    expect('textref: split boundaries', textref.split_lines('a\r\nb c\x0bd') == ['a', 'b', 'c', 'd'])
    expect('textref: trailing terminator', textref.split_lines('a\n') == ['a'] and textref.split_lines('a\n\n') == ['a', ''])
    expect('textref: empty string is one blank line', textref.split_lines('') == [''])
    expect('textref: flatten', textref.ref_lines([None, 'a\nb', [], {'dict': [['k', 1]]}, {'tb': ['x', '']}, '']) ==
           ['a', 'b', '1', 'x', '', ''])
    expect('textref: has_content', textref.has_content([None, []]) is False and textref.has_content(['']) is None
           and textref.has_content([0]) is True)
    expect('textref: bullet prefixes', textref.ref_indent_prefixes('spaces', 4, '-') == ('    ', '-   ')
           and textref.ref_indent_prefixes('spaces', 2, '>>>') == ('    ', '>>> ')
           and textref.ref_indent_prefixes('tab', 4, '*') == ('\t', '*\t'))


def test_lookup_spec():
    decls = [('interfaces', ['a', 'I'], None), ('interfaces', ['I'], None), ('enums', ['a', 'b', 'I'], None)]
    hits = M.spec_lookup(decls, ['a', 'b'], ['I'])
    expect('lookup spec: whole chain', sorted(d[1] for d in hits) == [['I'], ['a', 'I'], ['a', 'b', 'I']])
    expect('lookup spec: partial qualification', [d[1] for d in M.spec_lookup(decls, ['a', 'b'], ['a', 'I'])] == [['a', 'I']])
    expect('lookup spec: order innermost first', M.spec_resolution_order(['a', 'b'], ['I']) == [['a', 'b', 'I'], ['a', 'I'], ['I']])
    expect('lookup spec: unrelated scope', [d[1] for d in M.spec_lookup(decls, ['c'], ['I'])] == [['I']])


if __name__ == '__main__':
    for fn in (test_routing, test_nested, test_semantics, test_facilities, test_final, test_refcfg, test_textref,
               test_lookup_spec):
        fn()
    print(f'\n{len(FAILED)} failed' if FAILED else '\nall checker self-tests passed')
    sys.exit(1 if FAILED else 0)
