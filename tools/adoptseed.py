#!/venv/bin/python
"""Adopt a property-breaking change written by an independent sub-agent.

    tools/adoptseed.py <out-dir of the agent> <name under /verif/seeded>

Confirms, in a scratch copy of /repo (never in /repo): the patch applies; the repository's own
test suite still passes with it; the demonstration passes on the unchanged tree and fails on
the changed one.  Only then are patch.diff, the demonstration and meta.json stored under
/verif/seeded/<name>/ (meta.json is extended with what was run here).
"""
import json
import os
import shutil
import subprocess
import sys
import tempfile

HERE = os.path.dirname(os.path.dirname(os.path.abspath(__file__)))
REPO = '/repo'
TEST_CMD = ['/venv/bin/python', '-m', 'pytest', '-q', '-p', 'no:cacheprovider',
            '--continue-on-collection-errors']


def main():
    src, name = sys.argv[1], sys.argv[2]
    meta = json.load(open(os.path.join(src, 'meta.json'), encoding='utf-8'))
    scratch = tempfile.mkdtemp(prefix='dznpy-verif-adopt-')
    ok = True
    try:
        copy = os.path.join(scratch, 'repo')
        shutil.copytree(REPO, copy, ignore=shutil.ignore_patterns('.git', '__pycache__'))
        proc = subprocess.run(['patch', '-p1', '-d', copy, '-i', os.path.join(src, 'patch.diff')],
                              capture_output=True, text=True)
        if proc.returncode != 0:
            print('patch does not apply:', proc.stdout[-300:], proc.stderr[-300:])
            return 1
        tests = subprocess.run(TEST_CMD, cwd=copy, capture_output=True, text=True, timeout=900)
        tail = tests.stdout.strip().splitlines()[-1] if tests.stdout.strip() else ''
        print('test suite with change:', tail)
        ok &= '181 passed' in tail
        imp = subprocess.run(['/venv/bin/python', '-c',
                              'import dznpy.adv_shell, dznpy.json_ast, dznpy.cpp_gen, '
                              'dznpy.support_files.multi_client_selector'],
                             env=dict(os.environ, PYTHONPATH=os.path.join(copy, 'src')),
                             capture_output=True, text=True)
        print('imports with change:', 'ok' if imp.returncode == 0 else imp.stderr[-300:])
        ok &= imp.returncode == 0
        demo = os.path.join(src, 'demo.py')
        results = {}
        for label, tree in (('unchanged', REPO), ('changed', copy)):
            dp = subprocess.run(['/venv/bin/python', demo, tree], capture_output=True, text=True,
                                timeout=1800, cwd=src)
            results[label] = dp.returncode
            print(f'demo on {label}: exit {dp.returncode}  {dp.stdout.strip().splitlines()[-1][:160] if dp.stdout.strip() else dp.stderr.strip()[-160:]}')
        ok &= results['unchanged'] == 0 and results['changed'] != 0
        if not ok:
            print('NOT adopted')
            return 1
        dst = os.path.join(HERE, 'seeded', name)
        if os.path.exists(dst):
            shutil.rmtree(dst)
        shutil.copytree(src, dst, ignore=shutil.ignore_patterns('property.txt', 'prompt.txt',
                                                                '__pycache__', '*.o', 'a.out',
                                                                'build*', 'work*'))
        meta['confirmed_here'] = {
            'applied_to': 'scratch copy of /repo at ' + subprocess.check_output(
                ['git', '-C', REPO, 'log', '--format=%h', '-1'], text=True).strip(),
            'test_suite_with_change': tail,
            'demo_exit_unchanged': results['unchanged'], 'demo_exit_changed': results['changed'],
            'commands': ['patch -p1 -d <copy> -i patch.diff', ' '.join(TEST_CMD),
                         '/venv/bin/python demo.py <tree>']}
        meta['origin'] = 'independent sub-agent given only the property text and a scratch worktree'
        with open(os.path.join(dst, 'meta.json'), 'w', encoding='utf-8') as fh:
            json.dump(meta, fh, indent=1)
        print('adopted as', dst)
        return 0
    finally:
        shutil.rmtree(scratch, ignore_errors=True)


if __name__ == '__main__':
    sys.exit(main())
